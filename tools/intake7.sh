#!/bin/bash
# development aid (round 7): confirm a change produced by a sub-agent in /tmp/wt7_<ID>.out/<v>/ inside its scratch worktree /tmp/wt7_<ID> and file it
# usage: tools/intake3.sh <ID> <a|b> <name>
ID=$1; V=$2; NAME=$3; W=/tmp/wt7_$ID; SRC=/tmp/wt7_$ID.out/$V; OUT=/verif/seeded/$NAME
set -u
cd $W || exit 2
git checkout -q -- . ; git apply $SRC/patch.diff || { echo "patch does not apply"; exit 2; }
PY=$(OMP_NUM_THREADS=2 MKL_NUM_THREADS=2 /venv/bin/python -m pytest -q -p no:cacheprovider --timeout=900 --continue-on-collection-errors 2>&1 | tail -1)
PYTHONPATH=$W /venv/bin/python $SRC/demo.py > /tmp/demo_with_$NAME.txt 2>&1; RC1=$?
git apply -R $SRC/patch.diff
PYTHONPATH=$W /venv/bin/python $SRC/demo.py > /tmp/demo_without_$NAME.txt 2>&1; RC0=$?
git checkout -q -- .
mkdir -p $OUT
cp $SRC/patch.diff $OUT/patch.diff; cp $SRC/demo.py $OUT/demo.py; cp $SRC/notes.txt $OUT/seed_notes.md 2>/dev/null
echo "$RC1 $RC0 $PY" > $OUT/.confirm
echo "$NAME: demo rc with=$RC1 without=$RC0 suite: $PY"
