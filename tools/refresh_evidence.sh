#!/bin/bash
# development aid: re-run every registered quick check on the clean tree so the committed evidence describes a clean run
cd /verif
git -C /repo diff --quiet || { echo "/repo has uncommitted changes"; exit 2; }
for id in $(python3 -c "import json; print(' '.join(c['property_id'] for c in json.load(open('MANIFEST.json'))['checks']))"); do
  /usr/bin/time -f "$id %es" ./vcheck $id ${1:-quick} > /tmp/refresh_$id.log 2>&1; echo "$id rc=$? $(tail -1 /tmp/refresh_$id.log | cut -c1-120)"
done
