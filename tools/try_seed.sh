#!/bin/bash
# development aid: apply a filed seed to /repo, run checks, undo.  usage: tools/try_seed.sh <name> <ID> [tier] [more IDs...]
NAME=$1; shift
git -C /repo apply /verif/seeded/$NAME/patch.diff || { echo "patch does not apply"; exit 2; }
for ID in "$@"; do
  T0=$(date +%s)
  (cd /verif && ./vcheck $ID ${TIER:-quick} 2>&1 | grep -E "VIOLATION|KNOWN|INCONCLUSIVE|HARNESS|paths=" | cut -c1-250 | head -4)
  echo "[$ID rc=${PIPESTATUS[0]} $(( $(date +%s) - T0 ))s]"
done
git -C /repo checkout -- .
