#!/usr/bin/env python3
"""Regenerates MANIFEST.json from the table below (keeps the file valid and in one place)."""
import json, os
ROOT = os.path.dirname(os.path.dirname(os.path.abspath(__file__)))
TECH = "bounded symbolic execution of the real Python source on a symbolic torch stand-in; per-path obligations discharged by z3 (unsat = holds for all values on the path); sat models replayed on real torch"
CHECKS = {
 "C17": dict(
  text="Bounded symbolic model checking of the real constructor: each hyperparameter (one and two at a time, floats as IEEE Float64 terms incl. NaN/inf/-0.0, ints as mathematical integers) is a solver variable; on every path z3 proves raised <=> outside the documented domain and the -1 default substitutions. Exhaustive over all values of the symbolic arguments; the other arguments sit at two valid baselines.",
  note="Trusted: z3's QF_FP/LIA decision; the stand-in's torch.optim.Optimizer/param_groups contract; arguments not symbolic in a harness are at a baseline; NotImplementedError cases are three concrete config subclasses.",
  ref="DESIGN.md section 3 C17"),
 "C15": dict(
  text="Bounded symbolic model checking of both copies of _split_tensor_block_recovery on an abstract flat tensor with symbolic 0<=start<=end<=numel for every original shape up to the bound; per path z3 proves ordered partition, slab/alignment/single-leading-index relations, view-only, agreement of the copies, and minimality (no decomposition into fewer valid slabs exists).",
  note="Trusted: z3 LIA with div/mod; shapes are enumerated (order<=3 dims<=3 quick, order<=4 dims<=4 thorough, samples of order 5), larger shapes are outside the claim; narrow/view are views by construction of the abstract tensor, write-through is checked concretely on the stand-in.",
  ref="DESIGN.md section 3 C15"),
 "C14": dict(
  text="Bounded symbolic model checking of the three copies of _distribute_buffer_sizes with symbolic block byte sizes (ties included): the explorer enumerates every ordering decided by the real sort/heap comparisons, and per path z3 proves 64-byte round-up, that the result is an LPT assignment, max-min load <= largest block, the 4/3 bound against a symbolic alternative assignment, agreement of the copies and independence from other state. Buffer layout relations are checked on concrete block shapes in the stand-in's byte-cell model and on real torch in replay.",
  note="Trusted: z3 LIA; bounds n<=4 blocks on <=3 ranks (quick), n<=6/<=4 ranks (thorough); larger groups outside the claim; tie-breaking not prescribed; the state-placement clause is decided on the rank simulator by running the DDP/HSDP/HybridShard harnesses of C06-C08 on the layouts where ownership matters (group = world, group = replicate size, group a proper divisor of it): per group exactly one rank holds each block's Kronecker state; replay on real gloo processes.",
  ref="DESIGN.md section 3 C14"),
 "C16": dict(
  text="Bounded symbolic model checking of the real flatten/unflatten on enumerated tree skeletons with symbolic string (z3 String) and integer keys: z3 decides key equality, so distinct paths -> distinct flat keys, exact restoration of nesting/key types/leaf identity and dropping of leafless sub-dicts are proved for all key values; OptimizerModule.state_dict/load_state_dict on enumerated object graphs with symbolic tensor contents.",
  note="Trusted: json.dumps/loads replaced by an injective invertible encoding of key lists (the documented round trip), backed by a concrete adversarial-key pass through the real json (enumeration, not solver-quantified: quotes, backslashes, control characters, unicode escapes, separators, digit strings vs ints; all nestings of two and all sibling pairs) -- a change that bypasses json for some keys is only visible there; skeleton depth<=3/leaves<=3 (quick), depth<=4/leaves<=4 (thorough); key strings of length<=4; module tensors in four layouts (contiguous row, transposed view, strided column slice, 0-d).",
  ref="DESIGN.md section 3 C16"),
 "C01": dict(
  text="Bounded symbolic model checking of the real optimizer (constructor, step(), distributor, preconditioner lists) on the symbolic torch stand-in against a per-block reference model of the documented update rule: all ten continuous hyperparameters, all parameter and gradient entries (and gradient presence, scheduler changes of lr/weight decay) are solver variables; every equality regime of the hyperparameters that the code tests for is explored; after each step parameters, every checkpointable state tensor, the step counter and the arguments/timing of every inverse-root computation are proved equal to the reference (polynomial identities, z3).",
  note="Trusted: real arithmetic for floats (rounding outside the claim, dtypes as tags); matrix_inverse_root is a recording stub (fresh symmetric matrix, a function of its arguments); shapes/categorical options enumerated within the bound (<=8 elements per parameter, T<=2 plain / <=4 re-based, plus one step from an arbitrary re-based state at an arbitrary symbolic step number k); two groups with own symbolic hyperparameters; one genuine defect recorded in known_findings.json (momentum enabled by a scheduler); diagonality fast-path flag followed on the generic side only; grafting guard calibrated from the implementation within [0,1e-12]; reference model written from the docstrings/README.",
  ref="DESIGN.md section 3 C01"),
 "C02": dict(
  text="Bounded symbolic model checking: (1) the real optimizer in warm-up against reference models of torch.optim SGD/Adagrad/RMSprop/Adam/AdamW (validated against the real classes in every run) for symbolic hyperparameters, parameters, gradients and presence patterns on blocked/merged layouts; (2) norm transfer: for the recorded Shampoo direction S, grafted direction G and applied direction D of every block z3 proves D*(|S|+d)=|G|*S, and a z3 side lemma derives collinearity, orientation and (1-1e-9)|G|<=|D|<=|G| for |S|>=1e-3.",
  note="Trusted: real arithmetic; SGD dampening 0; grafting beta2 != 1 for RMSprop/Adam (beta2 = 1 is Shampoo's documented AdaGrad mode, outside the range where the formulations coincide); Adam variants with all gradients present; T=2..3; recording wrappers on precondition()/_precondition_and_grafting (renamed internals = harness error).",
  ref="DESIGN.md section 3 C02"),
 "C04": dict(
  text="Bounded symbolic model checking with one symbolic boolean per parameter and step for gradient presence (z3 enumerates all pattern sequences): absent parameters keep parameter and every state tensor (same terms, same objects), an all-absent group keeps its step counter, present parameters equal the per-parameter reference run, and every masked per-block list equals the local list compressed by the current selector.",
  note="Trusted: as C01; generic equality regime of the hyperparameters only (special values are C01's); 2-3 parameters with equal-shaped blocks, <=2 groups, T<=3 re-based (quick) / <=5 (thorough); masked-list alignment reads internal attributes.",
  ref="DESIGN.md section 3 C04"),
 "C09": dict(
  text="Bounded symbolic model checking, differential: optimizer A runs on the stand-in with symbolic gradients/hyperparameters; at every stop step its real distributed_state_dict() is deep-copied and loaded by the real load_distributed_state_dict() into a freshly constructed optimizer B; parameters and every state tensor of A and B must be equal terms after each remaining step. Key uniqueness (flat keys = state tensors) and strictness of loading (a solver-chosen index removes a flat entry / renames a parameter / changes the group key; loading must raise).",
  note="Trusted: as C01 (real arithmetic, recording stubs that are functions of their arguments); T<=3 (quick)/4 (thorough); generic equality regime; serial layout and DDP/DTensor layout (world 2 on the rank simulator; replay on real gloo processes); torch.save serialisation outside the claim.",
  ref="DESIGN.md section 3 C09"),
 "C13": dict(
  text="Bounded symbolic model checking with a symbolic outcome per matrix-routine call (success / raise / NaN / Inf result), symbolic gradient presence, NaN gradients and a symbolic integer tolerance N: a per-block reference counter decides on every path whether step() must raise; failed factors keep their matrix; non-finite factors/results raise PreconditionerValueError with all parameters unchanged; stored roots/eigenbases never carry the non-finite marker. Shampoo and SOAP lists.",
  note="Trusted: recording stubs for the matrix routines; non-finite values as tensor-level markers propagated by every stand-in operation, float downcasts optionally a symbolic overflow event; <=3 refreshes (quick)/<=4 (thorough), N<=3, weight decay/momentum/filtering off.",
  ref="DESIGN.md section 3 C13"),
 "C03": dict(
  text="Bounded symbolic model checking of the real EigenvalueCorrectedShampooPreconditionerList inside the real optimizer against a SOAP reference model: the eigenvector routine is a recording stub (contract: orthonormal result), so validity of stored bases reduces to proved statements - the stored basis changes only at schedule steps and equals what the routine returned for the current factor matrix (QR: with the previous basis as estimate, operands the routine can multiply); corrected eigenvalues, rotated/rotated-back directions, no-basis and ignored-dims cases, order-3 rotate pairing and all state tensors are proved equal to the reference (z3 polynomial identities).",
  note="Trusted: matrix_eigenvectors stub (the routine itself is C12); real arithmetic; dtype pairs as tags with torch's matmul mismatch rule; T<=4 re-based, <=8 elements; generic equality regime plus one all-regime job per method.",
  ref="DESIGN.md section 3 C03"),
 "C05": dict(
  text="(b) the real merge_small_dims with symbolic integer dims and threshold: z3 proves per path product preservation and that the output is a fusion of consecutive runs of the non-1 dims with every fused run within the threshold; (c) bounded symbolic differential: optimizer on a tensor under a blocking vs optimizer on its blocks as separate parameters, parameters and per-block state proved equal; (a) tiling relations (views, exact cover, row-major order within the merged shape, limit, gradient index sets) by exhaustive enumeration of shapes/limits on the stand-in's exact view semantics.",
  note="Trusted: part (a) is enumeration of concrete shapes (order 0..4, dims<=3 quick / 4 thorough, limits 1..6), not solver-quantified; (b) dims/threshold 1..64, order<=4; (c) as C01, T=2, generic regime.",
  ref="DESIGN.md section 3 C05"),
 "C10": dict(
  text="Bounded symbolic model checking of the real matrix_functions.py over exact real arithmetic with eigh/qr as environment stubs: dispatch and error cases; the scalar fast path equals the spectral value on PSD input (all three configurations); coupled Newton starts from z*A_ridge with z=(p+1)/(2|A_ridge|_F), keeps M = X^p(A+eps I) on the returned pair, reports CONVERGED only if the last computed error (of the returned M) meets the tolerance; the higher-order solver starts from A_ridge/trace, returns only if |A_ridge X^p - I|_inf <= 0.1, else raises, and restores the tf32 flag on every path. The floating-point accuracy bound of the property is NOT decided.",
  note="Claim strength: exact-arithmetic limit (u -> 0) and control flow only; n=2, root<=2 (3 thorough), <=2 (3) iterations for the coupled solvers; the eigendecomposition solver with and without the stability option on a symbolic PSD spectrum (n<=3): X = Q diag((lambda+eps)^(-1/r)) Q^T; norms are atoms recording their arguments; convergence to the principal root from the proved start is the cited theorem, not proved here; diagonal fast path is covered in C11.",
  ref="DESIGN.md section 3 C10"),
 "C11": dict(
  text="Bounded symbolic model checking of the real eigendecomposition-based inverse root over the eigh stub with arbitrary real ascending eigenvalues (zero and negative included), symbolic epsilon: every argument of the fractional power is >= epsilon on every path (finite result, eigenvalues <= eps^(-1/r) by monotonicity), the output is Q D Q^T of the decomposed matrix (A, or A+eps I with enhance_stability) hence symmetric, the float64 retry, root and shape validation; diagonal fast path equals the general path on diagonal PSD input.",
  note="Trusted: eigh stub (ascending eigenvalues, fresh Q; LAPACK's contract); n<=3, roots 2,4,3/2; commutation and orthogonal equivariance are consequences of the proved spectral form and are not discharged as queries; float overflow/underflow outside the claim.",
  ref="DESIGN.md section 3 C11"),
 "C12": dict(
  text="Bounded symbolic model checking of the real eigenvector routines around the eigh/qr stubs: 1x1 and diagonal-flag fast paths, shape validation, eigh configuration returns the decomposition's Q of the input, zero estimate falls back to eigh, QR iteration factors A@Q_prev each step, stops exactly by the relative-change/tolerance rule or the count, and returns the last Q with columns in ascending Rayleigh-quotient order (all orderings explored, z3 on linearised normal forms).",
  note="Trusted: orthonormality / ordering / diagonalisation of eigh and qr outputs are LAPACK's contract (assumed); the fixed-point clause is not decided; n<=3, max_iterations<=3 (n=2) / 1 (n=3).",
  ref="DESIGN.md section 3 C12"),
 "C06": dict(
  text="Bounded symbolic model checking on the stand-in's lock-step rank simulator: R simulated ranks run the real DDPDistributor/optimizer (threads passing one baton, all_gather as rendezvous with deadlock detection, per-rank logs of process-group creations and collectives); per path (symbolic hyperparameters, values, gradients, presence) every rank's parameters are proved equal to the serial run, all members of a communicator issue the same collectives, all ranks create the same multi-member groups in the same order, each block's state lives on one rank of its group. Counterexamples are replayed with real multi-process gloo under a timeout.",
  note="Trusted: the simulator checks the SPMD contract, not backend timing (equal collective sequences => interleaving independence is the standard SPMD argument); world<=4 (8 thorough), T=2; BF16/FP16 communication for one step with rounding as an uninterpreted function; as C01 otherwise. Two genuine defects are recorded in known_findings.json (rank starvation; per-owner mesh creation for 1<group<world).",
  ref="DESIGN.md section 3 C06"),
 "C07": dict(
  text="Bounded symbolic model checking, differential: each simulated shard rank runs the real FSDPDistributor (HSDP: HSDPDistributor over a simulated replicate x shard mesh with all_gather) inside the real optimizer on its flat shard with hand-built metadata; every element of every shard is proved equal to the serial optimizer run on the documented recovered sub-tensors as independent parameters, and every element of the original parameter is covered exactly once across the shard ranks. Symbolic hyperparameters, values, gradients, presence; shard boundaries enumerated (mid-row, aligned, single element, empty, inner-slice).",
  note="Trusted: FSDP metadata is a harness input (compile_fsdp_parameter_metadata reads FSDP internals, outside the model); shapes<=12 elements, <=3 shard ranks (4 thorough), replicate 2 (4 thorough), num_trainers_per_group = -1 / replicate size / proper divisor, T=2 (thorough: every three-way cut of four shapes of order 2..4); BF16/FP16 communication for one step with rounding as an uninterpreted function; simulator and stubs as C06/C01.",
  ref="DESIGN.md section 3 C07"),
 "C08": dict(
  text="Bounded symbolic model checking, differential: parameters and gradients are simulator DTensors sharded on dim 0 (uneven, ranks without rows), each simulated rank runs the real FullyShardDistributor (HybridShardDistributor over a simulated 2-D mesh) in the real optimizer; every local shard is proved equal to the serial optimizer on that rank's non-empty local tensors, replicas agree, empty shards stay empty; symbolic presence including absent gradients on empty shards.",
  note="Trusted: DTensor modelled by its local view and dim-0 placement; <=3 shard ranks (4 thorough), replicate 2 (4 thorough), num_trainers_per_group = -1 / replicate size / proper divisor, T=2 (thorough: every distribution of <=4 rows over three ranks); BF16/FP16 communication for one step with rounding as an uninterpreted function; simulator and stubs as C06/C01.",
  ref="DESIGN.md section 3 C08"),
}
NA = {
 "C18": "the compiled step exists only as TorchDynamo/AOTAutograd output traced over real torch; it cannot be executed on symbolic tensors or translated to SMT within reach",
}
PENDING = "check under construction in this round (solver-based harness not landed yet)"
ALL = [f"C{i:02d}" for i in range(1, 19)]
m = dict(
 version=1, setup_cmd="./setup.sh",
 hooks=dict(guard="OPTIMIZERS_VERIF", enable="none needed: checks import /repo's modules unmodified over a symbolic torch stand-in placed first on sys.path and patch module attributes from outside; the guard variable is exported by ./vcheck for completeness",
            baseline_off_cmd="cd /repo && /venv/bin/python -m pytest -ra -q -p no:cacheprovider --timeout=900 --continue-on-collection-errors",
            source_commits=[], add_only=True),
 engines=[dict(name="symx", path="vlib/symx.py", serves_properties=sorted(CHECKS), kind_free_text="symbolic scalars over z3 (Real/Int/Float64/String), re-execution path explorer with control/data split and equality regimes, staged discharge of obligations"),
          dict(name="symtorch", path="symtorch/torch", serves_properties=sorted(CHECKS), kind_free_text="pure-Python torch stand-in (numpy object arrays of symbolic scalars, exact views/aliasing, dtype tags, lock-step rank simulator) on which the unmodified repository code runs")],
 checks=[], not_applicable=[], notes="All checks: ./vcheck <ID> quick|thorough. Exit 0 held / 1 VIOLATION (replayed on real torch) / 2 inconclusive or harness error (never reported as success).")
for pid in ALL:
    if pid in CHECKS:
        c = CHECKS[pid]
        m["checks"].append(dict(property_id=pid, quick_cmd=f"./vcheck {pid} quick", thorough_cmd=f"./vcheck {pid} thorough", evidence_file=f"evidence/{pid}.json",
                                replay_cmd_template="./vcheck --replay {path}", engine="symx+symtorch",
                                level_claimed=dict(category="model_checking", text=c["text"], design_ref=c["ref"]), level_note=c["note"], technique=c.get("tech", TECH)))
    else:
        m["not_applicable"].append(dict(property_id=pid, reason=NA.get(pid, PENDING)))
json.dump(m, open(os.path.join(ROOT, "MANIFEST.json"), "w"), indent=1)
print("checks:", [c["property_id"] for c in m["checks"]])
