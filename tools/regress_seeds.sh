#!/bin/bash
# development aid: every filed change under seeded/ against the checks recorded as detecting it (refactorings: against all checks they touch);
# expected: seeds -> exit 1 with a VIOLATION line; refactorings -> exit 0.  /repo is restored after each.  Evidence files are overwritten: run
# tools/refresh_evidence.sh afterwards.   usage: tools/regress_seeds.sh [name-prefix]
cd /verif
for d in seeded/${1:-}*/; do
  n=$(basename $d)
  ids=$(python3 -c "import json,sys; m=json.load(open('$d/meta.json')); print(' '.join(m.get('detection',{}).get('detected_by') or m.get('detection',{}).get('checks_run') or []))")
  [ -z "$ids" ] && { echo "$n: no detecting check recorded"; continue; }
  git -C /repo apply /verif/$d/patch.diff || { echo "$n: patch does not apply"; continue; }
  for id in $ids; do
    t0=$(date +%s)
    out=$(./vcheck $id quick 2>&1); rc=$?
    v=$(echo "$out" | grep -c "^VIOLATION")
    echo "$n $id rc=$rc violations=$v $(( $(date +%s) - t0 ))s"
  done
  git -C /repo checkout -- .
done
