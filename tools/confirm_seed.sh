#!/bin/bash
# development aid: confirm a seeded change produced by a sub-agent in /tmp/seed_<ID> and file it under /verif/seeded/<name>
# usage: tools/confirm_seed.sh <ID> <name>
ID=$1; NAME=${2:-$1}; W=/tmp/seed_$ID; OUT=/verif/seeded/$NAME
set -u
cd $W || exit 2
git diff -- . ':(exclude)demo_*' ':(exclude)seed_notes.md' > /tmp/patch_$NAME.diff
[ -s /tmp/patch_$NAME.diff ] || { echo "no source change"; exit 2; }
echo "== pytest with change"; /venv/bin/python -m pytest -q -p no:cacheprovider --timeout=900 --continue-on-collection-errors 2>&1 | tail -1 | tee /tmp/pytest_with_$NAME.txt
echo "== demo with change"; /venv/bin/python demo_$ID.py > /tmp/demo_with_$NAME.txt 2>&1; RC1=$?; tail -3 /tmp/demo_with_$NAME.txt; echo "rc=$RC1"
git apply -R /tmp/patch_$NAME.diff
echo "== demo without change"; /venv/bin/python demo_$ID.py > /tmp/demo_without_$NAME.txt 2>&1; RC0=$?; tail -2 /tmp/demo_without_$NAME.txt; echo "rc=$RC0"
git apply /tmp/patch_$NAME.diff
mkdir -p $OUT
cp /tmp/patch_$NAME.diff $OUT/patch.diff; cp demo_$ID.py $OUT/; [ -f seed_notes.md ] && cp seed_notes.md $OUT/
echo "$RC1 $RC0 $(cat /tmp/pytest_with_$NAME.txt)" > $OUT/.confirm
echo "confirmed: demo rc with=$RC1 without=$RC0"
