#!/bin/bash
# development aid: apply a behaviour-preserving refactor to /repo, run checks (they must stay quiet: exit 0), undo.
NAME=$1; shift
git -C /repo apply /verif/seeded/$NAME/patch.diff || { echo "patch does not apply"; exit 2; }
for ID in "$@"; do
  (cd /verif && ./vcheck $ID ${TIER:-quick} > /tmp/refactor_$ID.log 2>&1; echo "[$ID rc=$?] $(grep -E 'VIOLATION|INCONCLUSIVE|HARNESS' /tmp/refactor_$ID.log | grep -v KNOWN | head -2 | cut -c1-400)")
done
git -C /repo checkout -- .
