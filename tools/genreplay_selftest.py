# development aid: generic-value replays of ~115 configurations x 2 value sets on the CLEAN tree must not "reproduce" anything (guards the replay oracle itself)
import sys, json, os, subprocess, time
sys.path[:0] = ['/verif', '/repo']
# build records for many configs and replay them on the real build with generic values: none may "reproduce" on the clean tree
sys.path.insert(0, '/verif/symtorch')
from checks import c01, c03, c04, c09
jobs = []
for mod, js in (("checks.c01", c01.jobs_for("quick") + [dict(id=f"r{i}", module="checks.c01", factory="make", cfg=c) for i, c in enumerate(c01.random_cfgs(5, 20))]),
                ("checks.c03", c03.jobs_for("quick")), ("checks.c04", c04.jobs_for("quick")), ("checks.c09", [j for j in c09.jobs_for("quick") if j["factory"] == "make"] + c09.random_jobs(3, 10, "quick"))):
    for j in js:
        jobs.append((mod, j))
print(len(jobs), "configs")
os.makedirs("/tmp/verif_genreplay", exist_ok=True)
procs = []
def launch(i, mod, j, g, pres):
    rec = dict(label="generic replay self-test", info=dict(cfg=j["cfg"], signature=dict(kind="selftest")), pins={}, model=pres, calllog=[], generic_seed=g)
    path = f"/tmp/verif_genreplay/{i}_{g}.json"
    json.dump(dict(property="C00", module=mod, record=rec), open(path, "w"), default=str)
    env = dict(os.environ); env["PYTHONPATH"] = "/verif:/repo"; env["OMP_NUM_THREADS"] = "1"
    return subprocess.Popen(["/verif/.venv/bin/python", "-m", "vlib.replay", path], env=env, stdout=subprocess.PIPE, stderr=subprocess.STDOUT, text=True), path
import itertools
todo = []
for i, (mod, j) in enumerate(jobs):
    for g in (1, 2):
        pres = {}
        if j["cfg"].get("presence") == "symbolic":
            # alternate presence patterns
            for k in range(1, 7):
                for p in range(4):
                    pres[f"present_p{p}_s{k}"] = bool((k + p + g) % 3)
        todo.append((i, mod, j, g, pres))
bad = 0
running = []
t0 = time.time()
while todo or running:
    while todo and len(running) < 14:
        a = todo.pop()
        running.append((launch(*a), a))
    for (p, path), a in list(running):
        if p.poll() is not None:
            out = p.stdout.read()
            running.remove(((p, path), a))
            if p.returncode != 0:
                bad += 1
                print("RC", p.returncode, a[1], a[2]["id"], "seed", a[3], out[-400:].replace("\n", " | "))
    time.sleep(0.2)
print("done bad=", bad, "wall", round(time.time() - t0))
