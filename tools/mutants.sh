#!/bin/bash
# development aid: apply a sed mutation to /repo, run a check, restore.  usage: tools/mutants.sh <ID> <tier> <file> <sed-expr> [extra args]
ID=$1; TIER=$2; FILE=$3; EXPR=$4; shift 4
cd /repo && sed -i "$EXPR" "$FILE" && if git diff --quiet; then echo "MUTATION DID NOT APPLY"; exit 3; fi
cd /verif && ./vcheck $ID $TIER "$@" 2>&1 | grep -E "VIOLATION|KNOWN|INCONCLUSIVE|HARNESS|paths=" | cut -c1-260 | head -8
git -C /repo checkout -- .
