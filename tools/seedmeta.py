#!/usr/bin/env python3
"""usage: tools/seedmeta.py <name> <property> <needs> <detected_by> [notes]  -- writes /verif/seeded/<name>/meta.json"""
import json, os, sys
name, prop, needs, det = sys.argv[1:5]
notes = sys.argv[5] if len(sys.argv) > 5 else ""
d = f"/verif/seeded/{name}"
conf = open(os.path.join(d, ".confirm")).read().split(None, 2) if os.path.exists(os.path.join(d, ".confirm")) else ["?", "?", "?"]
meta = dict(name=name, breaks_property=prop, needs_to_manifest=needs, origin="independent sub-agent given only the property text and a scratch worktree",
            confirmed=dict(existing_suite_with_change=conf[2].strip(), demo_exit_with_change=int(conf[0]) if conf[0].isdigit() else conf[0], demo_exit_without_change=int(conf[1]) if conf[1].isdigit() else conf[1],
                           how="tools/confirm_seed.sh in the scratch worktree: pytest with the change, demo with and without (git stash)"),
            detection=dict(detected_by=det.split(","), how="tools/try_seed.sh: git -C /repo apply patch.diff; ./vcheck <ID> quick; git -C /repo checkout -- .", notes=notes))
json.dump(meta, open(os.path.join(d, "meta.json"), "w"), indent=1)
if os.path.exists(os.path.join(d, ".confirm")):
    os.remove(os.path.join(d, ".confirm"))
print("wrote", d)
