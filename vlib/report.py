"""Verdict bookkeeping shared by all checks: evidence file, replay of counterexamples, known findings."""
from __future__ import annotations

import json
import os
import subprocess
import sys
import time

ROOT = os.path.dirname(os.path.dirname(os.path.abspath(__file__)))
OUT = os.path.join(ROOT, "out")
EVID = os.path.join(ROOT, "evidence")
PY = os.path.join(ROOT, ".venv", "bin", "python")


def _jsonable(x):
    from fractions import Fraction

    if isinstance(x, dict):
        return {str(k): _jsonable(v) for k, v in x.items()}
    if isinstance(x, (list, tuple, set, frozenset)):
        return [_jsonable(v) for v in x]
    if isinstance(x, Fraction):
        return [x.numerator, x.denominator]
    if isinstance(x, (str, int, float, bool)) or x is None:
        return x
    return repr(x)


class Report:
    def __init__(self, pid, tier, seed):
        self.pid, self.tier, self.seed = pid, tier, seed
        self.t0 = time.time()
        self.paths = 0
        self.decisions = 0
        self.stats = {}
        self.samples = []
        self.violations = []  # candidate records (sat)
        self.unknowns = []
        self.unknown_records = []
        self.harness_errors = []
        self.assumptions = []
        self.bounds = {}
        self.functions = set()
        self.cuts = set()
        self.sections = {}
        self.validated_traces = 0
        self.notes = []
        self.jobs = 0
        self.regimes = 0
        self.twin_sat = 0
        self.twin_expected = 0
        self.status_counts = {}
        self.extra = {}

    def validate_standin(self, n_traj=6):
        """Translator validation in every run: the stand-in vs the real torch build on operation scenarios and optimizer trajectories."""
        from . import selftest

        try:
            n_ops, n_tr, bad = selftest.compare(n_traj, self.seed)
        except Exception as e:
            self.harness_errors.append(dict(job="stand-in validation", why=repr(e)[:500]))
            return
        self.validated_traces += n_ops + n_tr
        self.extra["standin_validation"] = dict(operation_scenarios=n_ops, optimizer_trajectories=n_tr, mismatches=len(bad))
        for b in bad[:3]:
            self.harness_errors.append(dict(job="stand-in validation", why=b))

    # ---- absorbing explorer output
    def absorb(self, section, results, sample_every=0, soft=None):
        """`soft`: predicate on job ids marking seeded *sampled* configurations -- an inconclusive outcome there (unknown, truncated, harness error) is
        recorded in the evidence but does not make the run inconclusive; candidate counterexamples from them are replayed like any other."""
        sec = self.sections.setdefault(section, dict(jobs=0, paths=0, obligations=0, queries=0, unsat=0, sat=0, unknown=0, solver_s=0.0,
                                                     regimes=0, truncated=0, infeasible=0))
        for jid, r in results.items():
            if soft is not None and soft(jid):
                incon = r["truncated"] or r["errors"] or any(x["status"] in ("unknown", "harness_error") or (x["status"] == "end" and "budget" in str(x.get("why"))) for x in r["records"])
                if incon:
                    self.extra.setdefault("sampled_configurations_inconclusive", []).append(jid)
                    r = dict(r, truncated=False, errors=[], records=[x for x in r["records"] if x["status"] in ("ok", "violation", "restart") or (x["status"] == "end" and "budget" not in str(x.get("why")))])
            self.jobs += 1
            sec["jobs"] += 1
            sec["regimes"] += len(r["regimes"])
            self.regimes += len(r["regimes"])
            self.functions.update(r["funcs"])
            if r["truncated"]:
                sec["truncated"] += 1
                self.harness_errors.append(dict(job=jid, why="path budget: job truncated (unexplored paths remain)"))
            for e in r["errors"]:
                self.harness_errors.append(dict(job=jid, why=e))
            for i, rec in enumerate(r["records"]):
                self.paths += 1
                sec["paths"] += 1
                self.decisions += rec.get("n_decisions", len(rec["decisions"]))
                st = rec["stats"]
                for k in ("obligations", "queries", "unsat", "sat", "unknown", "solver_s"):
                    sec[k] += st.get(k, 0)
                for k, v in st.items():
                    if k == "slowest_query_s":
                        self.stats[k] = max(self.stats.get(k, 0), v)
                        continue
                    self.stats[k] = self.stats.get(k, 0) + v
                self.status_counts[rec["status"]] = self.status_counts.get(rec["status"], 0) + 1
                for c in rec.get("cuts", []):
                    self.cuts.add(c)
                if rec["status"] == "violation":
                    v = dict(rec["violation"])
                    v["job"] = jid
                    v["section"] = section
                    self.violations.append(v)
                elif rec["status"] == "unknown":
                    self.unknowns.append(dict(job=jid, label=rec["violation"].get("label"), decisions=rec["decisions"][-8:]))
                    v = dict(rec["violation"])
                    v["job"] = jid
                    v["section"] = section
                    self.unknown_records.append(v)
                elif rec["status"] == "harness_error":
                    self.harness_errors.append(dict(job=jid, why=rec.get("why")))
                elif rec["status"] == "end" and "budget" in str(rec.get("why")):
                    self.harness_errors.append(dict(job=jid, why=rec.get("why")))
                elif rec["status"] == "end":
                    sec["infeasible"] += 1
                if len(self.samples) < 6 and rec["status"] == "ok" and (i % max(1, len(r["records"]) // 2) == 0):
                    self.samples.append(dict(job=jid, pins=rec.get("pins"), decisions=[f"{k}:{v}:{t}" for k, v, t in rec["decisions"][-6:]],
                                             obligations=st.get("obligations"), events=rec.get("events", [])[-6:], result=rec.get("result")))

    def _generic_retries(self, path, module, v, text, n=3):
        """The candidate's values did not reproduce (degenerate witness: zero gradients, stub outputs that LAPACK does not return, ...) or the solver gave no
        model: replay the same harness on the real build with generic tensor contents; the file at `path` is the record that reproduced, if any."""
        if os.environ.get("VERIF_GENERIC_RETRIES", "1") == "0":
            return 0, text
        try:
            import importlib
            import inspect

            if "replay_record" not in inspect.getsource(importlib.import_module(module).replay):
                return 0, text  # check-specific replays (real gloo processes, LAPACK searches) do their own search around the witness
        except Exception:
            return 0, text
        for g in range(1, n + 1):
            v2 = dict(v)
            v2["generic_seed"] = g
            with open(path, "w") as f:
                json.dump(_jsonable(dict(property=self.pid, module=module, record=v2)), f, indent=1)
            rc, t2 = run_replay(path)
            if rc == 1:
                self.extra["reproduced_with_generic_values"] = self.extra.get("reproduced_with_generic_values", 0) + 1
                return 1, t2
        with open(path, "w") as f:
            json.dump(_jsonable(dict(property=self.pid, module=module, record=v)), f, indent=1)
        return 0, text

    # ---- violations: replay, known findings, verdict
    def finish(self, module, level_text_assumptions=None):
        """Replay candidates on the real build, write the evidence file, print verdict lines, return the exit code."""
        os.makedirs(OUT, exist_ok=True)
        os.makedirs(EVID, exist_ok=True)
        known = _load_known(self.pid)
        confirmed, not_reproduced, known_hits = [], [], {}
        seen_sig = set()
        for n, v in enumerate(self.violations):
            sig = v.get("info", {}).get("signature") if isinstance(v.get("info"), dict) else None
            sigkey = json.dumps(_jsonable(sig), sort_keys=True)
            if sigkey in seen_sig and sig is not None:
                continue  # one replay per distinct signature
            if len(seen_sig) >= int(os.environ.get("VERIF_MAX_REPLAYS", "8")):
                self.notes.append("more candidate counterexamples than the replay cap; remaining ones not replayed")
                break
            path = os.path.join(OUT, f"{self.pid}_cex_{len(seen_sig)}.json")
            with open(path, "w") as f:
                json.dump(_jsonable(dict(property=self.pid, module=module, record=v)), f, indent=1)
            rc, text = run_replay(path)
            seen_sig.add(sigkey)
            if rc == 0:
                rc, text = self._generic_retries(path, module, v, text)
            if rc == 1:
                k = _match_known(known, sig)
                if k is not None:
                    known_hits[k["id"]] = k
                else:
                    confirmed.append((path, v, text))
            elif rc == 0:
                not_reproduced.append((path, v, text))
            else:
                self.harness_errors.append(dict(job=v.get("job"), why=f"replay failed rc={rc}: {text[-600:]}"))
        # obligations the solver could not decide: candidates with generic values (the harness run concretely on the real build decides whether one is a
        # counterexample); whatever does not reproduce stays inconclusive
        still_unknown = []
        tried = 0
        for v in self.unknown_records:
            sig = v.get("info", {}).get("signature") if isinstance(v.get("info"), dict) else None
            sigkey = "u" + json.dumps(_jsonable(sig), sort_keys=True)
            if sigkey in seen_sig or tried >= 3 or not isinstance(v.get("info"), dict) or "cfg" not in v["info"]:
                still_unknown.append(v)
                continue
            tried += 1
            seen_sig.add(sigkey)
            path = os.path.join(OUT, f"{self.pid}_cex_u{tried}.json")
            rc, text = self._generic_retries(path, module, v, "")
            if rc == 1:
                k = _match_known(known, sig)
                if k is not None:
                    known_hits[k["id"]] = k
                else:
                    confirmed.append((path, v, text))
            else:
                still_unknown.append(v)
        self.extra["unknown_obligations_tried_with_generic_values"] = tried
        wall = time.time() - self.t0
        ev = dict(
            property_id=self.pid, tier=self.tier, seed=self.seed, level="model_checking",
            coverage=dict(
                states=max(self.paths, 0), transitions=max(self.decisions, 0) + self.stats.get("obligations", 0),
                traces_validated_against_impl=self.validated_traces,
                samples=self.samples[:6] or [dict(note="no completed path")],
                evaluations=self.paths, distinct_nontrivial=self.paths,
                rule="one evaluation = one symbolic execution path of the real repository code (a distinct decision prefix / equality regime); "
                     "every path carries solver-discharged obligations, so each counted path is non-trivial; paths are distinct by construction of the DFS",
                exhaustive=not self.harness_errors and not self.unknowns,
                paths=self.paths, jobs=self.jobs, equality_regimes=self.regimes, obligations=self.stats.get("obligations", 0),
                solver_queries=self.stats.get("queries", 0), unsat=self.stats.get("unsat", 0), sat=self.stats.get("sat", 0),
                unknown=self.stats.get("unknown", 0), solver_seconds=round(self.stats.get("solver_s", 0.0), 2), slowest_query_seconds=self.stats.get("slowest_query_s", 0),
                discharged_by=dict(normal_form=self.stats.get("stage1", 0), identity_query=self.stats.get("stage2", 0), with_path_condition=self.stats.get("stage3", 0)),
                feasibility_queries=self.stats.get("feas_queries", 0), control_forks=self.stats.get("ctrl_forks", 0), data_forks=self.stats.get("data_forks", 0),
                cut_data_conditions=sorted(self.cuts)[:20], path_status=self.status_counts, sections=self.sections,
                functions_encoded=sorted(self.functions)[:200], bounds=self.bounds, vacuity_twins=dict(expected_sat=self.twin_expected, got_sat=self.twin_sat),
                candidate_counterexamples=len(self.violations), reproduced_on_real_build=len(confirmed) + len(known_hits), not_reproduced=len(not_reproduced),
                known_findings=[k["id"] for k in known_hits.values()], inconclusive=len(self.unknowns), harness_errors=len(self.harness_errors),
                solver="z3 " + _z3v(), second_solver=dict(engine="cvc5 (python wheel)", sampled_every=int(os.environ.get("VERIF_CROSSCHECK_EVERY", "0") or 0),
                                                            agree=self.stats.get("xcheck_agree", 0), disagree=self.stats.get("xcheck_disagree", 0),
                                                            cvc5_unknown=self.stats.get("xcheck_cvc5_unknown", 0), errors=self.stats.get("xcheck_error", 0),
                                                            decided_after_z3_unknown=self.stats.get("decided_by_cvc5", 0),
                                                            seconds=round(self.stats.get("xcheck_s", 0.0), 1)), **self.extra),
            assumptions=self.assumptions, wall_s=round(wall, 2), violations=len(confirmed),
        )
        with open(os.path.join(EVID, f"{self.pid}.json"), "w") as f:
            json.dump(_jsonable(ev), f, indent=1)
        for k in known_hits.values():
            print(f"KNOWN-FINDING: property={self.pid} {k['what']}")
        for path, v, text in confirmed:
            print(f"VIOLATION property={self.pid} replay={path}")
            print("  " + str(v.get("label")) + " :: " + text.strip().splitlines()[-1][:300] if text.strip() else "")
        if confirmed:
            return 1
        bad = False
        for path, v, text in not_reproduced:
            print(f"INCONCLUSIVE: candidate counterexample did not reproduce on the real build ({v.get('label')}): {path}", file=sys.stderr)
            bad = True
        for u in self.unknowns[:10]:
            print(f"INCONCLUSIVE: solver returned unknown for {u}", file=sys.stderr)
            bad = True
        for h in self.harness_errors[:3]:
            print(f"HARNESS-ERROR: {str(h)[-700:]}", file=sys.stderr)
        if len(self.harness_errors) > 3:
            print(f"HARNESS-ERROR: ... and {len(self.harness_errors) - 3} more", file=sys.stderr)
            bad = True
        if self.twin_expected != self.twin_sat:
            print(f"HARNESS-ERROR: vacuity twins: expected {self.twin_expected} sat, got {self.twin_sat}", file=sys.stderr)
            bad = True
        if self.paths == 0:
            print("HARNESS-ERROR: nothing explored", file=sys.stderr)
            bad = True
        print(f"{self.pid} {self.tier}: paths={self.paths} obligations={self.stats.get('obligations', 0)} queries={self.stats.get('queries', 0)} "
              f"unsat={self.stats.get('unsat', 0)} sat={self.stats.get('sat', 0)} unknown={self.stats.get('unknown', 0)} "
              f"solver_s={self.stats.get('solver_s', 0.0):.1f} wall_s={wall:.1f} known_findings={len(known_hits)}")
        return 2 if bad else 0


def _z3v():
    try:
        import z3

        return z3.get_version_string()
    except Exception:
        return "?"


def run_replay(path, timeout=600):
    env = dict(os.environ)
    env["PYTHONPATH"] = f"{ROOT}:/repo"
    env.pop("VERIF_SYM", None)
    try:
        p = subprocess.run([PY, "-m", "vlib.replay", path], env=env, capture_output=True, text=True, timeout=timeout)
        return p.returncode, (p.stdout + p.stderr)
    except subprocess.TimeoutExpired:
        return 3, "replay timeout"


def _load_known(pid):
    p = os.path.join(ROOT, "known_findings.json")
    if not os.path.exists(p):
        return []
    with open(p) as f:
        data = json.load(f)
    return [k for k in data.get("findings", []) if k.get("property") == pid and k.get("status", "open") == "open"]


def _match_known(known, sig):
    if not isinstance(sig, dict):
        return None
    for k in known:
        m = k.get("match", {})
        if m and all(_jsonable(sig.get(a)) == b for a, b in m.items()):
            return k
    return None
