"""setup / self-test: validate the torch stand-in against the real torch build.

Runs vlib.shimval in two subprocesses -- once on the real torch, once on the stand-in in concrete mode -- and
compares operation results (values, dtypes, raised-or-not, aliasing) and whole optimizer trajectories."""
from __future__ import annotations

import json
import os
import subprocess
import sys

ROOT = os.path.dirname(os.path.dirname(os.path.abspath(__file__)))
PY = os.path.join(ROOT, ".venv", "bin", "python")


def _run(shim, *args):
    env = dict(os.environ)
    env["PYTHONPATH"] = (f"{ROOT}/symtorch:" if shim else "") + f"{ROOT}:/repo"
    p = subprocess.run([PY, "-m", "vlib.shimval", *args], env=env, capture_output=True, text=True, timeout=600)
    if p.returncode != 0:
        raise RuntimeError(f"shimval failed ({'stand-in' if shim else 'real'}): {p.stderr[-800:]}")
    return json.loads(p.stdout.strip().splitlines()[-1])


def _close(a, b, tol):
    if isinstance(a, dict) and isinstance(b, dict):
        return set(a) == set(b) and all(_close(a[k], b[k], tol) for k in a)
    if isinstance(a, list) and isinstance(b, list):
        return len(a) == len(b) and all(_close(x, y, tol) for x, y in zip(a, b))
    if isinstance(a, (int, float)) and isinstance(b, (int, float)) and not isinstance(a, bool) and not isinstance(b, bool):
        if a != a and b != b:
            return True
        return abs(a - b) <= tol * (1 + abs(a) + abs(b))
    return a == b


def compare(n_traj=12, seed=0):
    """Returns (n_scenarios, n_trajectories, list of mismatches)."""
    from concurrent.futures import ThreadPoolExecutor

    with ThreadPoolExecutor(2) as ex:
        fr = ex.submit(_run, False, "both", str(n_traj), str(seed))
        fs = ex.submit(_run, True, "both", str(n_traj), str(seed))
        R, S = fr.result(), fs.result()
    real, shim = R["ops"], S["ops"]
    bad = []
    for k in sorted(set(real) | set(shim)):
        if k not in real or k not in shim or not _close(real[k], shim[k], 1e-6):
            bad.append(f"op {k}: real={json.dumps(real.get(k))[:160]} stand-in={json.dumps(shim.get(k))[:160]}")
    for a, b in zip(R["traj"], S["traj"]):
        if not _close(a, b, 1e-7):
            bad.append(f"trajectory case {a.get('case')}: real={json.dumps(a)[:200]} stand-in={json.dumps(b)[:200]}")
    return len(real), len(R["traj"]), bad


def main():
    n, t, bad = compare()
    for b in bad:
        print("MISMATCH", b)
    print(f"stand-in validation: {n} operation scenarios, {t} optimizer trajectories, {len(bad)} mismatches")
    return 1 if bad else 0


if __name__ == "__main__":
    sys.exit(main())
