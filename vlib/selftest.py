"""setup: validate the torch stand-in against the real torch build (placeholder, extended later)."""
import sys


def main():
    print("setup ok")
    return 0


if __name__ == "__main__":
    sys.exit(main())
