"""Shared harness: run the real DistributedShampoo next to the reference model (specs/shampoo_ref.py).

The same code runs in two worlds:
  * symbolic  -- `torch` is the stand-in, tensor entries / hyperparameters are vlib.symx values;
                 every comparison is a solver obligation on the current path;
  * concrete  -- `torch` is the real build (replay of a counterexample): values come from the z3
                 model, comparisons are numeric, mismatches are collected in CTX.concrete_failures.
"""
from __future__ import annotations

import itertools
import json
from fractions import Fraction

import numpy as np
import torch

from specs import shampoo_ref as R
from vlib import symx
from vlib.symx import CTX, SymReal

IS_SYM = str(getattr(torch, "__version__", "")).startswith("symtorch")
HP = ["lr", "b1", "b2", "b3", "eps", "wd", "mom", "damp", "geps", "gb2"]
_DT = {"float32": "float32", "float64": "float64", "bfloat16": "bfloat16"}


def dtype_of(name, for_precond=False, other=None):
    """dtype tag of the symbolic run; in replay float32 is widened to float64 (values), the (in)equality pattern of the pair is kept."""
    if IS_SYM:
        return getattr(torch, name)
    if name == "float32":
        return torch.float64
    return getattr(torch, name)


# ------------------------------------------------------------------------------------------ values <-> tensors
def arr_var(name, shape, sym=None):
    a = np.empty(shape, dtype=object)
    if a.ndim == 0:
        a[()] = symx.var(name)
        return a
    for idx in np.ndindex(*shape):
        a[idx] = symx.var(name + "_" + "_".join(map(str, idx)))
    return a


def arr_symmetric(name, n):
    a = np.empty((n, n), dtype=object)
    for i in range(n):
        for j in range(i, n):
            a[i, j] = a[j, i] = symx.var(f"{name}_{i}_{j}")
    return a


def to_tensor(arr, dtype):
    if IS_SYM:
        return torch.Tensor(np.array(arr, dtype=object, copy=True), dtype)
    return torch.tensor(np.array(arr, dtype=float), dtype=dtype)


def read(t):
    """Contents of a tensor as an object ndarray (SymReal / float)."""
    if hasattr(t, "to_local") and type(t).__name__ == "DTensor":
        t = t.to_local()
    if IS_SYM:
        return t.a.copy()
    a = t.detach().to(torch.float64).cpu().numpy()
    out = np.empty(a.shape, dtype=object)
    if a.ndim == 0:
        out[()] = float(a)
    else:
        for idx in np.ndindex(*a.shape):
            out[idx] = float(a[idx])
    return out


def write(t, arr):
    if hasattr(t, "to_local") and type(t).__name__ == "DTensor":
        t = t.to_local()
    if IS_SYM:
        t.a[...] = arr
    else:
        with torch.no_grad():
            t.copy_(torch.tensor(np.array(arr, dtype=float), dtype=t.dtype))


def zero():
    return SymReal.const(0) if IS_SYM else 0.0


def hp_value(name, cfg):
    fixed = cfg.get("fixed", {})
    if name in fixed:
        v = fixed[name]
        return SymReal.const(Fraction(v).limit_denominator(10**9)) if IS_SYM else float(v)
    return symx.hp(name)


def _assume_range(v, lo, hi, lo_closed, hi_closed):
    if not IS_SYM or not isinstance(v, SymReal) or v.c is not None:
        return
    if lo is not None:
        CTX.assume(v.n >= lo if lo_closed else v.n > lo)
    if hi is not None:
        CTX.assume(v.n <= hi if hi_closed else v.n < hi)


def assume_domain(hp):
    """The documented hyperparameter domain (what the constructor accepts, property C17)."""
    if not IS_SYM:
        return
    import z3

    def t(name):
        v = hp[name]
        return None if v.c is not None else v.n

    def add(name, f):
        x = t(name)
        if x is not None:
            CTX.assume(f(x))

    add("lr", lambda x: x >= 0)
    add("b1", lambda x: z3.And(x >= 0, x < 1))
    add("b2", lambda x: z3.And(x > 0, x <= 1))
    add("b3", lambda x: z3.Or(x == -1, z3.And(x >= 0, x < 1)))
    add("eps", lambda x: x > 0)
    add("wd", lambda x: x >= 0)
    add("mom", lambda x: z3.And(x >= 0, x < 1))
    add("damp", lambda x: z3.And(x >= 0, x < 1))
    add("geps", lambda x: x > 0)
    add("gb2", lambda x: z3.And(x > 0, x <= 1))


# ------------------------------------------------------------------------------------------ stubs for the amortised computations
class Stub:
    """Recording stand-in for matrix_inverse_root / matrix_eigenvectors (environment stub, DESIGN 1.2)."""

    def __init__(self, run, kind):
        self.run, self.kind = run, kind
        self.calls = []
        self.memo = {}

    def __call__(self, A, *args, **kw):
        c = len(self.calls)
        if self.kind == "invroot":
            root = kw.get("root", args[0] if args else None)
            rec = dict(kind="invroot", A=read(A), root=Fraction(root), eps=kw.get("epsilon", 0.0), diag=bool(kw.get("is_diagonal", False)), n=A.shape[0])
            base = f"ir{c}"
        else:
            est = kw.get("eigenvectors_estimate", args[0] if args else None)
            rec = dict(kind="eigvecs", A=read(A), est=None if est is None else read(est), diag=bool(kw.get("is_diagonal", False)), n=A.shape[0],
                       cfgname=type(kw.get("eigenvector_computation_config")).__name__, est_dtype=None if est is None else str(est.dtype), A_dtype=str(A.dtype))
            base = f"Q{c}"
        rec["A_dtype"] = str(A.dtype)
        rec["error"] = None
        if self.kind == "eigvecs" and rec["cfgname"] == "QRConfig" and est is not None and A.dim() == 2 and A.numel() > 1 and not kw.get("is_diagonal", False):
            # the orthogonal iteration starts with the power step A @ Q on a non-zero estimate: perform it so that
            # operands the real routine cannot multiply (dtype mismatch) fail here exactly as they do there
            try:
                if bool(est.any()):
                    A @ est
            except (symx.PathEnd, symx.Restart, symx.PathViolation, symx.HarnessError):
                raise
            except Exception as e:
                rec["error"] = f"{type(e).__name__}: {e}"
                rec["outcome"] = "error"
                rec["X"] = None
                self.calls.append(rec)
                CTX.calllog.append((self.kind, c, "error"))
                raise
        outcome = self.run.fault(self.kind, c) if self.run is not None else "ok"
        rec["outcome"] = outcome
        rec["X"] = None
        self.calls.append(rec)
        CTX.calllog.append((self.kind, c, outcome))
        if outcome == "raise":
            raise RuntimeError("injected failure of the matrix routine")
        n = A.shape[0] if A.dim() else 1
        # a function of its arguments: the same arguments give the same result (memoised on fingerprints / values)
        key = (self.kind, _argkey(rec["A"]), str(rec.get("root")), _argkey(np.array([rec.get("eps", 0.0)], dtype=object)),
               _argkey(rec["est"]) if rec.get("est") is not None and rec.get("cfgname") == "QRConfig" else None, rec.get("diag"))
        if key in self.memo:
            X = self.memo[key]
        else:
            X = arr_symmetric(base, n) if self.kind == "invroot" else arr_var(base, (n, n))
            self.memo[key] = X
        if A.dim() == 0 or A.numel() == 1 and A.dim() != 2:
            X = X.reshape(A.shape)
        rec["X"] = X
        t = to_tensor(X, A.dtype)
        if not IS_SYM and any(bool(v) for k, v in (CTX.values or {}).items() if str(k).startswith("overflow_")):
            t = t * 0 + 1e30  # replay of a downcast-overflow event: a finite root too large for the storage dtype
        if outcome in ("nan", "inf"):
            if IS_SYM:
                setattr(t, "nf_" + outcome, True)
            else:
                t.view(-1)[0] = float(outcome)
        return t


def _argkey(a):
    vals = list(np.array(a, dtype=object).reshape(-1))
    if IS_SYM:
        return tuple(SymReal.lift(v).fp for v in vals)
    return tuple(round(float(v), 12) for v in vals)


# ------------------------------------------------------------------------------------------ the run
class OptRun:
    """cfg keys: params [shapes], groups [[param idx]], mpd, merge, pf, sps, graft, nesterov, bias_corr, decoupled, precond
    (shampoo|soap_eigh|soap_qr), inv_root_override, ignored_dims, exponent_multiplier, pdtype, fdtype, fixed {hp: value},
    group_overrides [{...}], tolerated."""

    def __init__(self, cfg, tag="", init_values=None, hp=None, param_wrap=None):
        self.param_wrap = param_wrap
        self.cfg = cfg
        self.tag = tag
        self.init_values = init_values
        self.hp_given = hp
        # what goes into violation records must be picklable / JSON-able: callables (distributed-config factories, wrappers) are left out
        self.info = dict(cfg={k: v for k, v in cfg.items() if not callable(v)}, signature=dict(kind="update-rule"))
        self.fault_fn = None
        self.params, self.W0 = [], []
        self.build()

    # -- fault injection hook (C13); default: every call succeeds
    def fault(self, kind, c):
        return "ok" if self.fault_fn is None else self.fault_fn(kind, c)

    def build(self):
        from distributed_shampoo.distributed_shampoo import DistributedShampoo
        from distributed_shampoo.shampoo_types import (AdaGradGraftingConfig, AdamGraftingConfig, RMSpropGraftingConfig, SGDGraftingConfig,
                                                       ShampooPreconditionerConfig, EigenvalueCorrectedShampooPreconditionerConfig)
        from matrix_functions_types import EigenConfig, QRConfig, EighEigenvectorConfig
        import distributed_shampoo.utils.shampoo_preconditioner_list as pl

        cfg = self.cfg
        self.hp = {k: hp_value(self.tag + k, cfg) for k in HP} if self.hp_given is None else dict(self.hp_given)
        assume_domain(self.hp)
        hp = self.hp
        if cfg.get("assume_generic") and IS_SYM:
            # only the generic equality regime: no hyperparameter sits at one of the special values the code tests for
            for name, specials in (("b1", [0]), ("b2", [1]), ("b3", [-1, "b1"]), ("wd", [0]), ("mom", [0]), ("gb2", [1])):
                v = hp[name]
                if v.c is not None:
                    continue
                for sp in specials:
                    o = hp[sp] if isinstance(sp, str) else SymReal.const(sp)
                    if o.c is None or True:
                        CTX.assume(v.n != o.n)
        self.delta = calibrated_delta()
        pdt = dtype_of(cfg.get("pdtype", "float32"))
        fdt = dtype_of(cfg.get("fdtype", "float32"))
        self.pdt, self.fdt = pdt, fdt
        for i, shape in enumerate(cfg["params"]):
            w0 = arr_var(f"{self.tag}w{i}", tuple(shape)) if self.init_values is None else np.array(self.init_values[i], dtype=object).reshape(tuple(shape))
            self.W0.append(w0)
            p = torch.nn.Parameter(to_tensor(w0, pdt))
            if self.param_wrap is not None:
                p = self.param_wrap(p, i)
            self.params.append(p)
        groups = cfg.get("groups") or [list(range(len(self.params)))]
        self.groups = groups
        g = cfg.get("graft")
        if g is None:
            gc = None
        elif g == "sgd":
            gc = SGDGraftingConfig()
        elif g == "adagrad":
            gc = AdaGradGraftingConfig(epsilon=hp["geps"])
        elif g == "rmsprop":
            gc = RMSpropGraftingConfig(epsilon=hp["geps"], beta2=hp["gb2"])
        else:
            gc = AdamGraftingConfig(epsilon=hp["geps"], beta2=hp["gb2"])
        prec = cfg.get("precond", "shampoo")
        tol = cfg.get("tolerated", 3)
        ign = list(cfg.get("ignored_dims", []))
        if prec == "shampoo":
            pc = ShampooPreconditionerConfig(amortized_computation_config=EigenConfig(exponent_multiplier=cfg.get("exponent_multiplier", 1.0)),
                                             num_tolerated_failed_amortized_computations=tol, ignored_dims=ign)
        elif prec == "soap_eigh":
            pc = EigenvalueCorrectedShampooPreconditionerConfig(amortized_computation_config=EighEigenvectorConfig(),
                                                                num_tolerated_failed_amortized_computations=tol, ignored_dims=ign)
        else:
            pc = EigenvalueCorrectedShampooPreconditionerConfig(amortized_computation_config=QRConfig(),
                                                                num_tolerated_failed_amortized_computations=tol, ignored_dims=ign)
        # one pair of stubs per path, shared by all optimizers built on this path (same arguments -> same result)
        if "inv_stub" not in CTX.shared:
            CTX.shared["inv_stub"] = Stub(self, "invroot")
            CTX.shared["eig_stub"] = Stub(self, "eigvecs")
        self.inv_stub = CTX.shared["inv_stub"]
        self.eig_stub = CTX.shared["eig_stub"]
        pl.matrix_inverse_root = self.inv_stub
        pl.matrix_eigenvectors = self.eig_stub
        self._orig_check_diagonal = getattr(pl, "_verif_orig_check_diagonal", None) or pl.check_diagonal
        pl._verif_orig_check_diagonal = self._orig_check_diagonal
        orig = self._orig_check_diagonal

        def check_diagonal(A):
            CTX.opts["_in_check_diagonal"] = True
            try:
                return orig(A)
            finally:
                CTX.opts["_in_check_diagonal"] = False

        pl.check_diagonal = check_diagonal
        iro = cfg.get("inv_root_override", 0)
        kw = dict(lr=hp["lr"], betas=(hp["b1"], hp["b2"]), beta3=hp["b3"], epsilon=hp["eps"], momentum=hp["mom"], dampening=hp["damp"],
                  weight_decay=hp["wd"], max_preconditioner_dim=cfg["mpd"], precondition_frequency=cfg["pf"], start_preconditioning_step=cfg["sps"],
                  inv_root_override=iro, use_nesterov=cfg["nesterov"], use_bias_correction=cfg["bias_corr"], use_decoupled_weight_decay=cfg["decoupled"],
                  grafting_config=gc, use_merge_dims=cfg.get("merge", True), preconditioner_dtype=fdt, preconditioner_config=pc)
        if cfg.get("distributed_config_factory") is not None:
            kw["distributed_config"] = cfg["distributed_config_factory"](self)
        self.group_hp = [dict(hp) for _ in groups]
        if len(groups) == 1:
            plist = [self.params[i] for i in groups[0]]
        else:
            plist = []
            names = dict(lr="lr", weight_decay="wd", epsilon="eps", momentum="mom", dampening="damp", beta3="b3")
            for gi, idxs in enumerate(groups):
                d = dict(params=[self.params[i] for i in idxs])
                ov = (cfg.get("group_overrides") or [{}] * len(groups))[gi]
                for key, val in ov.items():
                    # override values are names of fresh symbolic hyperparameters (documented domain assumed)
                    if key == "betas":
                        v1, v2 = hp_value(val[0], cfg), hp_value(val[1], cfg)
                        _assume_range(v1, 0, 1, True, False)
                        _assume_range(v2, 0, 1, False, True)
                        d["betas"] = (v1, v2)
                        self.group_hp[gi]["b1"], self.group_hp[gi]["b2"] = v1, v2
                    else:
                        v = hp_value(val, cfg)
                        if key in ("lr", "weight_decay"):
                            _assume_range(v, 0, None, True, False)
                        elif key == "epsilon":
                            _assume_range(v, 0, None, False, False)
                        else:
                            _assume_range(v, 0, 1, True, False)
                        d[key] = v
                        self.group_hp[gi][names[key]] = v
                if cfg.get("assume_generic") and IS_SYM:
                    g = self.group_hp[gi]
                    for name, specials in (("b1", [0]), ("b2", [1]), ("b3", [-1]), ("wd", [0]), ("mom", [0])):
                        v = g[name]
                        if isinstance(v, SymReal) and v.c is None and v is not hp[name]:
                            for sp in specials:
                                CTX.assume(v.n != sp)
                plist.append(d)
        self.opt = DistributedShampoo(plist, **kw)
        # resolved effective hyperparameters (documented: -1 => beta1, resp. frequency); a group that leaves beta3 unset
        # inherits the optimizer-level RESOLVED value
        self.eff = dict(hp)
        b3 = hp["b3"]
        is_default = (b3 == -1.0)
        if bool(is_default):
            self.eff["b3"] = hp["b1"]
        self.eff["delta"] = self.delta
        for gi in range(len(groups)):
            ov = (cfg.get("group_overrides") or [{}] * len(groups))[gi] if len(groups) > 1 else {}
            g = self.group_hp[gi]
            if "beta3" not in ov:
                g["b3"] = self.eff["b3"]
            g["delta"] = self.delta
        self.rcfg = dict(cfg)
        if cfg["sps"] == -1:
            self.rcfg["sps"] = cfg["pf"]
        # reference state: per param -> merged shape, block slices, BlockRef
        self.ref = []
        for i, shape in enumerate(cfg["params"]):
            ms, sl = R.blocking(tuple(shape), cfg["mpd"], cfg.get("merge", True))
            blocks = [R.BlockRef(tuple(s.stop - s.start for s in b), self.rcfg, zero()) for b in sl]
            self.ref.append(dict(merged=ms, slices=sl, blocks=blocks, W=self.W0[i].reshape(ms).copy()))
        self.k = [0 for _ in groups]
        self.nsteps = 0

    # -- observation through the public state surface
    def block_state(self, pi, bi):
        p = self.params[pi]
        return self.opt.state[p][f"block_{bi}"]

    def step_counter(self, gi):
        p = self.params[self.groups[gi][0]]
        return self.opt.state[p]["step"]

    # -- one optimizer step with the given gradients (None = absent)
    def set_grads(self, grads):
        for p, g in zip(self.params, grads):
            p.grad = None if g is None else to_tensor(g, self.pdt)

    def impl_step(self):
        self.c0_inv, self.c0_eig = len(self.inv_stub.calls), len(self.eig_stub.calls)
        self.opt.step()

    def ref_step(self, grads, check_calls=True):
        """Advance the reference by one step; returns the list of (label, impl, spec) comparisons already proven for calls."""
        cfg = self.rcfg
        run = self
        inv_calls = self.inv_stub.calls[self.c0_inv:]
        eig_calls = self.eig_stub.calls[self.c0_eig:]
        pos = dict(inv=0, eig=0)

        class CB:
            @staticmethod
            def invroot(blk, i, A, r, eps):
                if pos["inv"] >= len(inv_calls):
                    symx.prove("an inverse root is recomputed at a refresh step for a block with a gradient", False, run._sig("missing-refresh"))
                    return None
                c = inv_calls[pos["inv"]]
                pos["inv"] += 1
                run.compare_invroot_call(c, A, r, eps)
                return c["X"]

            @staticmethod
            def eigvecs(blk, i, A, Qprev):
                if pos["eig"] >= len(eig_calls):
                    symx.prove("an eigenbasis is recomputed at a refresh step for a block with a gradient", False, run._sig("missing-refresh"))
                    return None
                c = eig_calls[pos["eig"]]
                pos["eig"] += 1
                run.compare_eigvec_call(c, A, Qprev)
                return c["X"]

        for gi, idxs in enumerate(self.groups):
            present = [pi for pi in idxs if grads[pi] is not None]
            if not present:
                continue
            self.k[gi] = self.k[gi] + 1
            k = self.k[gi]
            hpg = self.group_eff(gi)
            refresh = R.is_refresh(k, cfg)
            for pi in present:
                rp = self.ref[pi]
                G = np.array(grads[pi], dtype=object).reshape(rp["merged"])
                Wn = rp["W"].copy()
                for b, blk in zip(rp["slices"], rp["blocks"]):
                    Wn[b] = R.ref_block_step(cfg, hpg, blk, rp["W"][b], G[b], k, refresh, CB)
                rp["W"] = Wn
        if check_calls:
            symx.prove("inverse roots are recomputed only at start_preconditioning_step / multiples of precondition_frequency, for blocks with a gradient",
                       pos["inv"] == len(inv_calls) and pos["eig"] == len(eig_calls), self._sig("extra-refresh"))
        self.nsteps += 1

    def group_eff(self, gi):
        if len(self.groups) == 1:
            return self.eff
        return self.group_hp[gi]

    def _sig(self, kind, **kw):
        d = dict(self.info)
        d["signature"] = dict(kind=kind, graft=self.cfg.get("graft"), bias_corr=self.cfg.get("bias_corr"), precond=self.cfg.get("precond", "shampoo"), **kw)
        return d

    # -- comparisons
    def compare_invroot_call(self, c, A, r, eps):
        info = self._sig("inverse-root-argument")
        n = c["n"]
        Ai = c["A"].reshape(n, n) if c["A"].size == n * n else c["A"]
        A = np.array(A, dtype=object).reshape(n, n)
        epsi = c["eps"]
        for i in range(n):
            for j in range(n):
                lhs = Ai[i, j] + (epsi if i == j else 0)
                rhs = A[i, j] + (eps if i == j else 0)
                symx.prove_equal(f"inverse-root argument (factor/bias_correction + epsilon*I)[{i},{j}]", lhs, rhs, info)
        symx.prove("inverse-root exponent is -1/root (override / 2*order / exponent multiplier)",
                   Fraction(c["root"]).limit_denominator(10**6) == Fraction(r).limit_denominator(10**6), info)
        if c["diag"]:
            for i in range(n):
                for j in range(n):
                    if i != j:
                        symx.prove_equal("is_diagonal is only claimed for a diagonal factor matrix", Ai[i, j], 0, info)

    def compare_eigvec_call(self, c, A, Qprev):
        info = self._sig("eigenvector-argument")
        symx.prove(f"the eigenvector routine accepts its operands (factor {c.get('A_dtype')} / estimate {c.get('est_dtype')}): {c.get('error')}", c.get("error") is None,
                   self._sig("eigenvector-routine-rejects-operands"))
        n = c["n"]
        Ai = c["A"].reshape(n, n)
        A = np.array(A, dtype=object).reshape(n, n)
        # up to a positive scalar factor: compare A_impl * ref[0,0]-normalisation free form: cross-multiplied proportionality
        for i in range(n):
            for j in range(n):
                symx.prove_equal(f"eigenvector routine is given the accumulated factor matrix [{i},{j}]", Ai[i, j], A[i, j], info)
        if c["cfgname"] == "QRConfig" and c["est"] is not None:
            E = c["est"].reshape(n, n)
            Q = np.array(Qprev, dtype=object).reshape(n, n)
            for i in range(n):
                for j in range(n):
                    symx.prove_equal(f"QR estimate is the previously stored basis [{i},{j}]", E[i, j], Q[i, j], info)

    def compare_params(self, label="parameters move by -lr x the documented direction"):
        info = self._sig("parameter-update")
        for pi, p in enumerate(self.params):
            got = read(p).reshape(self.ref[pi]["merged"])
            exp = self.ref[pi]["W"]
            for idx in np.ndindex(*got.shape):
                symx.prove_equal(f"{label} (param {pi}{list(idx)})", got[idx], exp[idx], info)

    def state_pairs(self):
        """(label, impl value, spec value) for every checkpointable state entry, read through optimizer.state."""
        out = []
        soap = self.cfg.get("precond", "shampoo") != "shampoo"
        for pi, p in enumerate(self.params):
            for bi, blk in enumerate(self.ref[pi]["blocks"]):
                bs = self.opt.state[p].get(f"block_{bi}")
                if bs is None:
                    symx.prove(f"state of param {pi} block {bi} exists", False, self._sig("state-missing"))
                    continue
                sh = bs["shampoo"]
                for i in range(len(blk.pdims)):
                    out += _pairs(f"factor_matrices[{i}] p{pi}b{bi}", read(sh.factor_matrices[i]), blk.L[i])
                    if soap:
                        out += _pairs(f"eigenvectors[{i}] p{pi}b{bi}", read(sh.factor_matrices_eigenvectors[i]), blk.inv[i])
                    else:
                        out += _pairs(f"inv_factor_matrices[{i}] p{pi}b{bi}", read(sh.inv_factor_matrices[i]), blk.inv[i])
                if soap:
                    out += _pairs(f"corrected_eigenvalues p{pi}b{bi}", read(sh.corrected_eigenvalues), blk.E)
                if "filtered_grad" in bs:
                    out += _pairs(f"filtered_grad p{pi}b{bi}", read(bs["filtered_grad"]), blk.F)
                if "momentum" in bs:
                    out += _pairs(f"momentum p{pi}b{bi}", read(bs["momentum"]), blk.M)
                if "adagrad" in bs:
                    out += _pairs(f"adagrad p{pi}b{bi}", read(bs["adagrad"]), blk.V)
        return out

    def compare_state(self):
        info = self._sig("state-recurrence")
        for label, a, b in self.state_pairs():
            symx.prove_equal(f"state obeys the documented recurrence: {label}", a, b, info)
        for gi in range(len(self.groups)):
            st = self.step_counter(gi)
            v = st.item() if hasattr(st, "item") else st
            if IS_SYM and isinstance(v, SymReal):
                v = v.c
            symx.prove(f"group {gi} step counter", _as_int(v) == self.k[gi], self._sig("step-counter"))

    # -- frame conditions (C04): everything that belongs to a parameter, read through optimizer.state
    def snapshot_param(self, pi):
        p = self.params[pi]
        out = [("param", p, id(p), read(p))]

        def walk(prefix, x):
            if isinstance(x, torch.Tensor):
                out.append((prefix, x, id(x), read(x)))
            elif isinstance(x, dict):
                for k, v in x.items():
                    walk(f"{prefix}/{k}", v)
            elif isinstance(x, (list, tuple)):
                for i, v in enumerate(x):
                    walk(f"{prefix}/{i}", v)
            elif hasattr(x, "__dict__") and type(x).__module__.startswith(("distributed_shampoo", "optimizer_modules")):
                for k, v in vars(x).items():
                    walk(f"{prefix}.{k}", v)

        walk("state", self.opt.state[p] if p in self.opt.state else {})
        return out

    def prove_unchanged(self, pi, snap):
        info = self._sig("absent-parameter-changed")
        now = self.snapshot_param(pi)
        symx.prove(f"param {pi}: same set of state tensors", [n for n, *_ in now] == [n for n, *_ in snap], info)
        for (name, t0, id0, a0), (_, t1, id1, a1) in zip(snap, now):
            if name.endswith("step") or name == "state/step":
                continue  # the group's step counter lives under the first parameter of the group; checked separately
            symx.prove(f"param {pi}: state tensor object {name} is not replaced", id0 == id1, info)
            for idx in (np.ndindex(*a0.shape) if a0.ndim else [()]):
                symx.prove_equal(f"parameter without gradient is untouched: param {pi} {name}{list(idx)}", a1[idx], a0[idx], info)

    def masked_lists_aligned(self):
        """After a step every masked list is compress(local list, current selector) (alignment of per-block buffers)."""
        info = self._sig("masked-list-misaligned")
        from itertools import compress
        from distributed_shampoo import shampoo_types as ST

        for gi, sl in enumerate(self.opt._per_group_state_lists):
            pairs = []
            try:
                sel = sl[ST.DISTRIBUTOR].local_grad_selector
                if ST.FILTERED_GRAD_LIST in sl:
                    pairs.append(("filtered_grad", sl[ST.MASKED_FILTERED_GRAD_LIST], sl[ST.FILTERED_GRAD_LIST]))
                if ST.MOMENTUM_LIST in sl:
                    pairs.append(("momentum", sl[ST.MASKED_MOMENTUM_LIST], sl[ST.MOMENTUM_LIST]))
                pairs.append(("blocked_params", sl[ST.MASKED_BLOCKED_PARAMS], sl[ST.DISTRIBUTOR].local_blocked_params))
                shp = sl[ST.SHAMPOO_PRECONDITIONER_LIST]
                for nm, a_, b_ in (("kronecker_factors", "_masked_kronecker_factors_list", "_local_kronecker_factors_list"), ("roots", "_masked_root_list", "_local_root_list")):
                    if hasattr(shp, a_) and hasattr(shp, b_):
                        pairs.append((nm, getattr(shp, a_), getattr(shp, b_)))
                    else:
                        CTX.events.append(f"internal lists {a_}/{b_} not found: that alignment obligation is skipped (the frame and reference obligations decide the property)")
                gr = sl.get(ST.GRAFTING_PRECONDITIONER_LIST)
                if gr is not None and hasattr(gr, "_masked_preconditioner_list") and hasattr(gr, "_local_preconditioner_list"):
                    pairs.append(("grafting", gr._masked_preconditioner_list, gr._local_preconditioner_list))
            except (AttributeError, KeyError) as e:
                # the masked/local pairs are private bookkeeping: if a refactoring renamed them the alignment clause cannot be observed from outside
                CTX.events.append(f"masked-list alignment not observable ({type(e).__name__}: {e}): skipped")
                continue
            for name, masked, local in pairs:
                exp = list(compress(local, sel))
                ok = len(masked) == len(exp) and all((a is b) or (not isinstance(a, torch.Tensor) and a == b) for a, b in zip(masked, exp))
                symx.prove(f"group {gi}: masked {name} list is the local list compressed by the current gradient selector", ok, info)

    # -- re-basing (DESIGN 1.4 / 1b): rename what was just proved equal to fresh variables
    def rebase(self):
        n = self.nsteps
        if not IS_SYM and CTX.opts.get("generic_seed") is not None:
            # generic-value replay: keep running from the state actually reached (a reachable state is one of the re-based states; fresh generic
            # values would not satisfy the representation invariant the solver's model obeys)
            return
        if self.cfg.get("symbolic_step"):
            # arbitrary step number: the group's counter becomes a symbolic integer k >= (steps taken so far); with the
            # arbitrary re-based state this makes the next step() one inductive step of the recurrences
            for gi in range(len(self.groups)):
                cur = self.k[gi]
                k = symx.symint(f"{self.tag}k{n}g{gi}")
                if IS_SYM:
                    import z3

                    lo = cur if isinstance(cur, int) else 0
                    CTX.assume(z3.And(k.e >= lo, k.e <= 10**6))
                st = self.step_counter(gi)
                if IS_SYM:
                    st.a[()] = k
                else:
                    with torch.no_grad():
                        st.fill_(int(k))
                self.k[gi] = k
        for pi, p in enumerate(self.params):
            rp = self.ref[pi]
            fresh = arr_var(f"{self.tag}rw{n}p{pi}", rp["merged"])
            write(p, fresh.reshape(tuple(self.cfg["params"][pi])))
            rp["W"] = fresh.copy()
            for bi, blk in enumerate(rp["blocks"]):
                bs = self.opt.state[p][f"block_{bi}"]
                sh = bs["shampoo"]
                soap = self.cfg.get("precond", "shampoo") != "shampoo"
                for i, d in enumerate(blk.pdims):
                    L = arr_symmetric(f"{self.tag}rL{n}p{pi}b{bi}f{i}", d)
                    write(sh.factor_matrices[i], L)
                    blk.L[i] = L.copy()
                    if soap:
                        if blk.has_basis:
                            Q = arr_var(f"Q{self.tag}r{n}p{pi}b{bi}f{i}", (d, d))
                            write(sh.factor_matrices_eigenvectors[i], Q)
                            blk.inv[i] = Q.copy()
                    else:
                        X = arr_symmetric(f"{self.tag}rI{n}p{pi}b{bi}f{i}", d)
                        write(sh.inv_factor_matrices[i], X)
                        blk.inv[i] = X.copy()
                if soap:
                    E = arr_var(f"{self.tag}rE{n}p{pi}b{bi}", blk.shape)
                    _assume_nonneg(E)
                    write(sh.corrected_eigenvalues, E)
                    blk.E = E.copy()
                for key, attr, nonneg in (("filtered_grad", "F", False), ("momentum", "M", False), ("adagrad", "V", True)):
                    if key in bs:
                        a = arr_var(f"{self.tag}r{attr}{n}p{pi}b{bi}", blk.shape)
                        if nonneg:
                            _assume_nonneg(a)
                        write(bs[key], a)
                        setattr(blk, attr, a.copy())


def _assume_nonneg(a):
    if IS_SYM:
        for v in a.reshape(-1):
            if isinstance(v, SymReal) and v.c is None:
                CTX.assume(v.n >= 0, control=False)


def _as_int(v):
    if isinstance(v, Fraction):
        return int(v)
    if isinstance(v, float):
        return int(v)
    return v


def _pairs(label, a, b):
    a = np.array(a, dtype=object)
    b = np.array(b, dtype=object).reshape(a.shape)
    if a.ndim == 0:
        return [(label, a[()], b[()])]
    return [(f"{label}{list(idx)}", a[idx], b[idx]) for idx in np.ndindex(*a.shape)]


# ------------------------------------------------------------------------------------------ grafting guard calibration
_DELTA = {}


def calibrated_delta():
    """The guard d in ||graft|| / (||shampoo|| + d) is not documented: solve for it from the implementation at one
    rational point (exact arithmetic), require 0 <= d <= 1e-12, and use that value in the reference (DESIGN 1.5 iii)."""
    if "d" in _DELTA:
        return _DELTA["d"] if IS_SYM else float(_DELTA["d"])
    if not IS_SYM:
        _DELTA["d"] = Fraction(1e-16)
        try:
            _DELTA["d"] = _calibrate_real()
        except Exception:
            pass
        return float(_DELTA["d"])
    from distributed_shampoo.distributed_shampoo import DistributedShampoo
    from distributed_shampoo.shampoo_types import SGDGraftingConfig
    import distributed_shampoo.utils.shampoo_preconditioner_list as pl

    saved = (CTX.mode, pl.matrix_inverse_root)
    one = SymReal.const(1)
    try:
        pl.matrix_inverse_root = lambda A, **kw: torch.eye(A.shape[0], dtype=A.dtype)
        w = torch.nn.Parameter(torch.Tensor(np.array([SymReal.const(0), SymReal.const(0)], dtype=object), torch.float32))
        opt = DistributedShampoo([w], lr=one, betas=(SymReal.const(0), one), epsilon=one, precondition_frequency=1, start_preconditioning_step=1,
                                 grafting_config=SGDGraftingConfig(), use_bias_correction=False, use_decoupled_weight_decay=False)
        w.grad = torch.Tensor(np.array([SymReal.const(1), SymReal.const(0)], dtype=object), torch.float32)
        opt.step()
        moved = w.a[0]  # = -1/(1+d)
        if moved.c is None or moved.c == 0:
            raise symx.HarnessError("cannot calibrate the grafting guard")
        d = Fraction(-1) / moved.c - 1
    finally:
        pl.matrix_inverse_root = saved[1]
    if not (0 <= d <= Fraction(1, 10**12)):
        raise symx.HarnessError(f"grafting guard calibrated to {d}, outside [0, 1e-12]")
    _DELTA["d"] = SymReal.const(d)
    return _DELTA["d"]


def _calibrate_real():
    return Fraction(1e-16)


# ------------------------------------------------------------------------------------------ shared policies / replay
def data_policy_generic(sb, cond):
    """Cut the measure-zero side of the diagonality test (DESIGN 1.1): follow "the factor matrix is not diagonal"."""
    if CTX.opts.get("_in_check_diagonal") and not CTX.opts.get("explore_diagonal"):
        return True
    vs = [str(v) for v in symx._vars(cond)]
    if vs and all(v.startswith("Q") for v in vs):
        return True  # contract of the eigenvector stub: an orthonormal matrix is not the zero matrix
    return None


def default_opts(tier="quick", **kw):
    # on the unchanged tree the slowest decided query of any optimizer-level check is about 0.2 s (evidence: slowest_query_seconds); the time limit only
    # matters on the sat side, where an undecided obligation is handed to the generic-value replay anyway
    o = dict(query_timeout_ms=12000 if tier == "quick" else 60000, data_policy=data_policy_generic, path_budget_s=300 if tier == "quick" else 1200, fork_sat_side=True)
    o.update(kw)
    return o


def guarded_step(run, what="step() raised"):
    """opt.step() of the real optimizer; an exception on a path where the reference expects none is a violation."""
    try:
        run.impl_step()
        return None
    except (symx.PathEnd, symx.Restart, symx.PathViolation, symx.HarnessError):
        raise
    except (AttributeError, NotImplementedError, TypeError) as e:
        # an operation the stand-in does not implement is a limitation of the harness, never evidence about the repository
        msg = str(e)
        if IS_SYM and ("'Tensor' object has no attribute" in msg or "module 'torch" in msg or "symtorch" in msg or "unexpected keyword argument" in msg):
            raise symx.HarnessError(f"torch stand-in lacks an operation the code under test uses: {type(e).__name__}: {msg[:200]}")
        return e
    except Exception as e:
        return e


def replay_record(record, make):
    """Re-run the harness of `make(cfg)` on the REAL torch build with the witness values; numeric comparison."""
    info = record.get("info") or {}
    cfg = info["cfg"]
    fn, opts = make(cfg)
    pins = {}
    for k, v in (record.get("pins") or {}).items():
        pins[k] = v if isinstance(v, str) else Fraction(int(v[0]), int(v[1]))
    vals = {}
    for k, v in (record.get("model") or {}).items():
        if isinstance(v, list) and len(v) == 2:
            vals[k] = v[0] / v[1]
        elif isinstance(v, (int, float, bool)):
            vals[k] = v
        elif isinstance(v, str):
            try:
                vals[k] = float(v)
            except ValueError:
                vals[k] = v
    o = dict(opts)
    o.pop("data_policy", None)
    if record.get("generic_seed") is not None:
        o["generic_seed"] = record["generic_seed"]
    # numeric comparison on the real build: tolerance by the lowest-precision dtype the configuration computes in
    low = {cfg.get("pdtype", "float32"), cfg.get("fdtype", "float32")}
    o.setdefault("concrete_tol", 5e-2 if "bfloat16" in low else (5e-3 if "float16" in low else (1e-4 if "float32" in low else 1e-8)))
    CTX.reset(pins, [], o)
    CTX.mode = "concrete"
    CTX.values = vals
    CTX.replay_calllog = list(record.get("calllog") or [])
    text = ""
    try:
        fn()
    except Exception as e:
        import traceback

        CTX.concrete_failures.append(dict(label=f"harness exception {type(e).__name__}: {e}", detail=traceback.format_exc()[-800:]))
    fails = CTX.concrete_failures
    if fails:
        f0 = fails[0]
        text = f"{len(fails)} obligation(s) fail on the real build; first: {f0['label']} {f0.get('detail')}"
    else:
        text = "all obligations hold numerically on the real build for the witness values"
    text += f" | witness hyperparameters: { {k: round(vals[k], 6) for k in HP if k in vals} } pins={ {k: str(v) for k, v in pins.items()} }"
    CTX.mode = "symbolic"
    return bool(fails), text
