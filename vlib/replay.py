"""Replay a recorded counterexample against the REAL torch build (no symbolic stand-in on the path).

exit 1: the violation reproduces on the real code; exit 0: it does not; exit 2: replay error."""
import importlib
import json
import logging
import sys


def main():
    path = sys.argv[1]
    logging.disable(logging.CRITICAL)
    with open(path) as f:
        data = json.load(f)
    import torch

    assert not str(getattr(torch, "__version__", "")).startswith("symtorch"), "replay must run on the real torch"
    mod = importlib.import_module(data["module"])
    try:
        reproduced, text = mod.replay(data["record"])
    except BaseException as e:
        import traceback

        traceback.print_exc()
        print(f"replay error: {e!r}")
        return 2
    print(text)
    print("REPRODUCED" if reproduced else "NOT-REPRODUCED")
    return 1 if reproduced else 0


if __name__ == "__main__":
    sys.exit(main())
