"""Parallel driver: jobs (harness + config) are explored by forked worker processes.

A job is (module, factory, cfg).  `module.factory(cfg)` returns (fn, opts): `fn()` is the harness
executed once per path (it issues its own obligations through vlib.symx), `opts` are explorer
options.  A worker explores depth first up to `chunk` paths and hands the rest of its stack back,
so long jobs are spread over all cores.  Everything returned is plain data.
"""
from __future__ import annotations

import importlib
import multiprocessing as mp
import os
import sys
import time
import traceback

from . import symx

_FN_CACHE = {}
_STOP = None  # shared array (one flag per job): set by the parent once a job has produced enough counterexamples
MAX_VIOL_PER_JOB = int(os.environ.get("VERIF_MAX_VIOL_PER_JOB", "2"))
MAX_VIOL_TOTAL = int(os.environ.get("VERIF_MAX_VIOL_TOTAL", "6"))  # per run_jobs call: enough candidates to replay; the rest of the exploration is abandoned (reported as stopped)
_TOTAL_VIOL = [0]


def _get_fn(job):
    key = (job["module"], job["factory"], repr(sorted(job["cfg"].items(), key=lambda kv: kv[0])))
    if key not in _FN_CACHE:
        _FN_CACHE.clear()
        mod = importlib.import_module(job["module"])
        _FN_CACHE[key] = getattr(mod, job["factory"])(dict(job["cfg"]))
    return _FN_CACHE[key]


def _work(task):
    job, pins, prefixes, chunk, profile = task
    t0 = time.time()
    out = dict(job_id=job["id"], records=[], leftover=[], regimes=[], error=None, funcs=[])
    try:
        fn, opts = _get_fn(job)
        stack = [list(p) for p in prefixes]
        n = 0
        seen_funcs = set()
        while stack and n < chunk:
            if _STOP is not None and job.get("_idx") is not None and _STOP[job["_idx"]]:
                stack = []
                out["stopped"] = True
                break
            pre = stack.pop()
            if profile and n == 0:
                def prof(frame, event, arg):
                    if event == "call":
                        f = frame.f_code.co_filename
                        if f.startswith("/repo/"):
                            seen_funcs.add(f[6:] + ":" + frame.f_code.co_qualname)
                import threading
                sys.setprofile(prof)
                threading.setprofile(prof)
                try:
                    rec = symx.run_path(fn, pins, pre, opts)
                finally:
                    sys.setprofile(None)
                    threading.setprofile(None)
            else:
                rec = symx.run_path(fn, pins, pre, opts)
            n += 1
            dec = rec["decisions"]
            for i in range(len(pre), len(dec)):
                if dec[i][0] == "fork":
                    stack.append([d[1] for d in dec[:i]] + [not dec[i][1]])
            if rec["status"] == "restart":
                name, val = rec["pin"]
                np_ = dict(pins)
                np_[name] = val
                out["regimes"].append(np_)
            rec["decisions"] = [(k, v, t) for k, v, t in dec][-60:]
            rec["n_decisions"] = len(dec)
            out["records"].append(rec)
        out["leftover"] = stack
        out["funcs"] = sorted(seen_funcs)
    except BaseException as e:  # harness crashed outside run_path
        out["error"] = "".join(traceback.format_exception(type(e), e, e.__traceback__))[-4000:]
    out["wall_s"] = time.time() - t0
    return out


def run_jobs(jobs, nproc=None, chunk=8, max_paths_per_job=200000, on_record=None, deadline=None):
    """Explore all jobs; returns {job_id: dict(records=[...], regimes=[...], errors=[...], truncated=bool)}."""
    nproc = nproc or int(os.environ.get("VERIF_NPROC", "0") or 0) or min(16, os.cpu_count() or 1)
    res = {j["id"]: dict(records=[], regimes=[{}], errors=[], truncated=False, funcs=set(), npaths=0, nviol=0, stopped=False) for j in jobs}
    by_id = {j["id"]: j for j in jobs}
    seen_reg = {j["id"]: {frozenset()} for j in jobs}
    pending = []  # tasks
    for j in jobs:
        pending.append((j, dict(j.get("pins", {})), [[]], chunk, True))
        if j.get("pins"):
            seen_reg[j["id"]] = {frozenset(j["pins"].items())}
            res[j["id"]]["regimes"] = [dict(j["pins"])]
    if nproc == 1:
        while pending:
            if deadline and time.time() > deadline:
                for t in pending:
                    res[t[0]["id"]]["truncated"] = True
                break
            _absorb(_work(pending.pop()), res, by_id, seen_reg, pending, chunk, max_paths_per_job, on_record)
        return res
    # Workers are forked processes; a worker that dies (z3 crash, out of memory) or a task that exceeds its budget must not
    # hang the run: tasks are tracked with submission times, a broken pool is rebuilt and its in-flight tasks are retried
    # once one by one; what fails again is recorded as a harness error (never as success).
    from concurrent.futures import ProcessPoolExecutor, wait, FIRST_COMPLETED
    from concurrent.futures.process import BrokenProcessPool

    global _STOP
    _TOTAL_VIOL[0] = 0
    ctx = mp.get_context("fork")
    _STOP = ctx.Array("i", len(jobs) + 1, lock=False)
    for i, j in enumerate(jobs):
        j["_idx"] = i
    task_budget = float(os.environ.get("VERIF_TASK_BUDGET_S", "0") or 0) or None
    retried = set()

    def budget_of(t):
        fn_opts = None
        try:
            fn_opts = _get_fn(t[0])[1]
        except Exception:
            pass
        per_path = float((fn_opts or {}).get("path_budget_s", 300))
        return task_budget or (per_path * max(1, t[3]) + 120)

    pool = ProcessPoolExecutor(nproc, mp_context=ctx)
    inflight = {}  # future -> (task, t_submit)
    try:
        while pending or inflight:
            if deadline and time.time() > deadline:
                for t in pending:
                    res[t[0]["id"]]["truncated"] = True
                pending.clear()
            while pending and len(inflight) < nproc * 2:
                t = pending.pop()
                if res[t[0]["id"]]["nviol"] >= MAX_VIOL_PER_JOB or _TOTAL_VIOL[0] >= MAX_VIOL_TOTAL:
                    res[t[0]["id"]]["stopped"] = True  # enough counterexamples (from this job / in total): do not explore further
                    continue
                try:
                    inflight[pool.submit(_work, t)] = (t, time.time())
                except BrokenProcessPool:
                    pending.append(t)
                    pool.shutdown(wait=False, cancel_futures=True)
                    pool = ProcessPoolExecutor(nproc, mp_context=ctx)
            if not inflight:
                continue
            done, _ = wait(list(inflight), timeout=1.0, return_when=FIRST_COMPLETED)
            broken = False
            for f in done:
                t, _t0 = inflight.pop(f)
                try:
                    _absorb(f.result(), res, by_id, seen_reg, pending, chunk, max_paths_per_job, on_record)
                except BrokenProcessPool:
                    broken = True
                    _lost(t, res, pending, retried, "worker process died")
                except Exception as e:  # unpicklable result etc.
                    res[t[0]["id"]]["errors"].append(f"task failed: {e!r}"[:500])
            now = time.time()
            for f, (t, t0) in list(inflight.items()):
                if now - t0 > budget_of(t):
                    inflight.pop(f)
                    f.cancel()
                    broken = True
                    res[t[0]["id"]]["errors"].append(f"task exceeded its time budget ({int(now - t0)} s): prefixes {str(t[2])[:120]}")
                    res[t[0]["id"]]["truncated"] = True
            if broken:
                # everything still in flight on a broken / stuck pool is lost as well: kill the workers and start over
                for f, (t, t0) in list(inflight.items()):
                    _lost(t, res, pending, retried, "pool restarted")
                inflight.clear()
                for p in list(getattr(pool, "_processes", {}).values()):
                    try:
                        p.kill()
                    except Exception:
                        pass
                pool.shutdown(wait=False, cancel_futures=True)
                pool = ProcessPoolExecutor(nproc, mp_context=ctx)
    finally:
        for p in list(getattr(pool, "_processes", {}).values()):
            try:
                p.kill()
            except Exception:
                pass
        pool.shutdown(wait=False, cancel_futures=True)
    return res


def _lost(t, res, pending, retried, why):
    """A task whose worker vanished: retry it once split into single prefixes, then give up on it (harness error)."""
    key = (t[0]["id"], repr(sorted(t[1].items(), key=str)), repr(t[2]))
    if key in retried:
        res[t[0]["id"]]["errors"].append(f"{why}; task lost after retry: pins={t[1]} prefixes={str(t[2])[:160]}")
        res[t[0]["id"]]["truncated"] = True
        return
    retried.add(key)
    for pre in t[2]:
        one = (t[0], t[1], [pre], 1, False)
        retried.add((t[0]["id"], repr(sorted(t[1].items(), key=str)), repr([pre])))
        pending.append(one)


def _absorb(out, res, by_id, seen_reg, pending, chunk, max_paths, on_record):
    jid = out["job_id"]
    r = res[jid]
    job = by_id[jid]
    if out["error"]:
        r["errors"].append(out["error"])
    for rec in out["records"]:
        r["npaths"] += 1
        if (rec["status"] == "violation" and not _is_known(rec)) or rec["status"] == "unknown":
            # an obligation the solver could not decide is a candidate too (it is replayed with generic values); it already makes the run non-zero
            r["nviol"] += 1
            _TOTAL_VIOL[0] += 1
            if r["nviol"] >= MAX_VIOL_PER_JOB and _STOP is not None and job.get("_idx") is not None:
                _STOP[job["_idx"]] = 1
            if _TOTAL_VIOL[0] >= MAX_VIOL_TOTAL and _STOP is not None:
                for i in range(len(_STOP)):
                    _STOP[i] = 1
        if on_record:
            on_record(jid, rec)
        r["records"].append(_slim(rec))
    r["funcs"].update(out.get("funcs", []))
    pins = out["records"][0]["pins"] if out["records"] else {}
    for np_ in out["regimes"]:
        key = frozenset(np_.items())
        if key not in seen_reg[jid]:
            seen_reg[jid].add(key)
            r["regimes"].append(np_)
            pending.append((job, np_, [[]], chunk, False))
    if out["leftover"]:
        if r["npaths"] >= max_paths:
            r["truncated"] = True
        else:
            # split the leftover stack in two halves to spread the work
            lo = out["leftover"]
            if len(lo) > 1:
                pending.append((job, pins, lo[: len(lo) // 2], chunk, False))
                pending.append((job, pins, lo[len(lo) // 2:], chunk, False))
            else:
                pending.append((job, pins, lo, chunk, False))


_KNOWN = None


def _is_known(rec):
    """Candidates matching an open entry of known_findings.json do not count towards the early-stop budget of a job."""
    global _KNOWN
    if _KNOWN is None:
        import json

        try:
            with open(os.path.join(os.path.dirname(os.path.dirname(os.path.abspath(__file__))), "known_findings.json")) as f:
                _KNOWN = [k.get("match", {}) for k in json.load(f).get("findings", []) if k.get("status") == "open" and k.get("match")]
        except Exception:
            _KNOWN = []
    sig = ((rec.get("violation") or {}).get("info") or {}).get("signature") or {}
    return any(all(sig.get(a) == b for a, b in m.items()) for m in _KNOWN)


def _slim(rec):
    """Keep what the report needs; drop bulky fields of uneventful paths."""
    if rec["status"] in ("ok", "end", "restart"):
        rec = dict(rec)
        rec["decisions"] = rec["decisions"][-12:]
        rec["events"] = rec.get("events", [])[-12:]
    return rec
