"""./vcheck <ID> <tier>: run the check module of one property."""
import importlib
import logging
import os
import sys

ROOT = os.path.dirname(os.path.dirname(os.path.abspath(__file__)))


def main():
    pid, tier = sys.argv[1].upper(), (sys.argv[2] if len(sys.argv) > 2 else "quick")
    if tier not in ("quick", "thorough"):
        print("tier must be quick or thorough", file=sys.stderr)
        return 2
    # the symbolic torch stand-in shadows the real torch in this process and in every forked worker
    sys.path[:0] = [os.path.join(ROOT, "symtorch")]
    logging.disable(logging.CRITICAL)
    seed = int(os.environ.get("VERIF_SEED", "0") or 0)
    try:
        mod = importlib.import_module(f"checks.{pid.lower()}")
    except ModuleNotFoundError as e:
        print(f"HARNESS-ERROR: no check for {pid}: {e}", file=sys.stderr)
        return 2
    try:
        return int(mod.run(tier, seed, sys.argv[3:]))
    except SystemExit:
        raise
    except BaseException:
        import traceback

        traceback.print_exc()
        print(f"HARNESS-ERROR: check {pid} crashed", file=sys.stderr)
        return 2


if __name__ == "__main__":
    sys.exit(main())
