"""Validation of the torch stand-in against the real torch build (translator validation, DESIGN 1.6).

`scenarios()` runs the same operation scripts on whichever `torch` is importable (the real one, or
the stand-in in concrete mode) and returns, per scenario: values, result dtype, raised-or-not and
alias relations.  `python -m vlib.shimval` prints them as JSON; vlib.selftest runs it under both and
compares.  Whole optimizer trajectories (real DistributedShampoo on both) are compared too.
"""
from __future__ import annotations

import json
import logging
import math
import sys


def _is_shim(torch):
    return str(getattr(torch, "__version__", "")).startswith("symtorch")


def _vals(t):
    import torch

    if _is_shim(torch):
        return [float(x) if not isinstance(x, bool) else float(x) for x in t.a.reshape(-1)]
    return [float(x) for x in t.detach().to(torch.float64).reshape(-1).tolist()]


def _desc(t):
    return dict(shape=list(t.shape), dtype=str(t.dtype).replace("torch.", ""), vals=[round(v, 9) for v in _vals(t)])


def scenarios():
    import torch

    if _is_shim(torch):
        from vlib import symx

        symx.CTX.mode = "concrete"
    out = {}

    def rec(name, fn):
        try:
            r = fn()
            out[name] = r
        except Exception as e:
            out[name] = dict(raised=type(e).__name__)

    def T(data, dt=torch.float32):
        return torch.tensor(data, dtype=dt)

    A = lambda: T([[1.0, 2.0, 3.0], [4.0, 5.0, 6.0]])  # noqa: E731
    # --- dtype inference and promotion
    for nm, f in {
        "tensor_int": lambda: torch.tensor(3), "tensor_float": lambda: torch.tensor(3.5), "tensor_bool": lambda: torch.tensor(True),
        "f32+f64": lambda: T([1.0]) + T([2.0], torch.float64), "f32+f64_0d": lambda: T([1.0, 2.0]) + torch.tensor(2.0, dtype=torch.float64),
        "bf16+f32": lambda: T([1.0], torch.bfloat16) + T([2.0]), "bf16*0d_f32": lambda: T([1.0, 2.0], torch.bfloat16) * torch.tensor(2.0),
        "int_tensor*float": lambda: torch.tensor([1, 2]) * 0.5, "int0d-1": lambda: torch.tensor(5) - 1, "float**int0d": lambda: 0.5 ** torch.tensor(3),
        "one-pow": lambda: torch.tensor(1.0) - 0.5 ** torch.tensor(2), "f64/f32_0d": lambda: T([[4.0]], torch.float64) / torch.tensor(2.0),
        "int/int": lambda: torch.tensor([4, 2]) / torch.tensor([2, 2]), "neg0d": lambda: -torch.tensor(0.25),
        "as_tensor_pow": lambda: (T([4.0, 9.0]) + 0.0).pow(torch.as_tensor(-0.5)), "tensor**tensor": lambda: (T([[4.0]]) + 0.5) ** torch.as_tensor(-1.0 / 2),
        "eye": lambda: torch.eye(2, dtype=torch.float64), "zeros_like": lambda: torch.zeros_like(T([1.0], torch.bfloat16)), "ones_like": lambda: torch.ones_like(T([[2.0]])),
        "sqrt": lambda: T([4.0, 9.0]).sqrt(), "square": lambda: T([2.0, -3.0]).square(), "minimum": lambda: torch.minimum(torch.tensor(-1.0), torch.as_tensor(0.0)),
        "min": lambda: torch.min(T([3.0, 1.0, 2.0])), "trace": lambda: torch.trace(T([[1.0, 2.0], [3.0, 4.0]])), "diag_of_vec": lambda: torch.diag(T([1.0, 2.0])),
        "diagonal": lambda: torch.diagonal(T([[1.0, 2.0], [3.0, 4.0]])), "triu1": lambda: T([[1.0, 2.0], [3.0, 4.0]]).triu(diagonal=1), "tril-1": lambda: T([[1.0, 2.0], [3.0, 4.0]]).tril(diagonal=-1),
        "argsort": lambda: T([3.0, 1.0, 2.0]).argsort(), "index_cols": lambda: T([[1.0, 2.0], [3.0, 4.0]])[:, torch.tensor([1, 0])],
        "einsum": lambda: torch.einsum("ij, ik, kj -> j", T([[1.0, 2.0], [3.0, 4.0]]), T([[2.0, 1.0], [1.0, 3.0]]), T([[1.0, 2.0], [3.0, 4.0]])),
        "tensordot_gram": lambda: torch.tensordot(A(), A(), dims=[[1], [1]]), "tensordot_outer": lambda: torch.tensordot(T([1.0, 2.0]), T([3.0, 4.0]), dims=[[], []]),
        "tensordot_00": lambda: torch.tensordot(A(), T([[1.0, 2.0], [3.0, 4.0]]), dims=([0], [0])), "permute_rot": lambda: A().permute(1, 0),
        "matmul": lambda: A() @ A().T, "matrix_power": lambda: torch.linalg.matrix_power(T([[1.0, 2.0], [3.0, 4.0]]), 3), "addmm": lambda: torch.addmm(torch.eye(2), T([[1.0, 2.0], [3.0, 4.0]]), T([[1.0, 0.0], [0.0, 2.0]]), beta=0.5),
        "norm_fro": lambda: torch.linalg.norm(A()), "vector_norm_inf": lambda: torch.linalg.vector_norm(A() - 2.0, torch.inf), "matrix_norm_inf": lambda: torch.linalg.matrix_norm(T([[1.0, -2.0], [3.0, 4.0]]), torch.inf),
        "dist_inf": lambda: torch.dist(T([[1.0, 2.0]]), T([[0.0, 5.0]]), p=torch.inf), "foreach_norm": lambda: torch._foreach_norm([T([3.0, 4.0])])[0],
        "add_alpha": lambda: T([1.0]).add(T([2.0]), alpha=0.5), "mul_add_": lambda: T([[1.0, 2.0]]).mul(-0.5).add_(torch.eye(1, 2), alpha=1.5),
        "norm_dim0_keepdim": lambda: A().norm(dim=0, keepdim=True), "norm_dim1": lambda: A().norm(dim=1), "div_by_col_norms": lambda: A().div_(A().norm(dim=0, keepdim=True)),
        "vector_norm_dim": lambda: torch.linalg.vector_norm(A(), 2, dim=-1, keepdim=True),
        "sub_norm_div_": lambda: T([[1.0, 2.0]]).sub(T([[0.0, 1.0]])).norm().div_(T([[3.0, 4.0]]).norm()),
        "any_false": lambda: torch.tensor(float(bool(T([[0.0, 0.0]]).any()))), "any_true": lambda: torch.tensor(float(bool(T([[0.0, 1.0]]).any()))),
        "isnan_any": lambda: torch.tensor(float(bool(torch.isnan(T([1.0])).any()))), "count_nonzero": lambda: torch.count_nonzero(T([0.0, 2.0, 3.0])),
        "unsqueeze_bcast": lambda: T([[1.0, 2.0], [3.0, 4.0]]) * T([10.0, 100.0]).unsqueeze(0), "numel": lambda: torch.tensor(torch.numel(A())),
        "element_size_bf16": lambda: torch.tensor(T([1.0], torch.bfloat16).element_size()), "finfo_bits": lambda: torch.tensor(torch.finfo(torch.bfloat16).bits),
        "step_add_": lambda: torch.tensor(0, dtype=torch.int64).add_(1), "step_item_mod": lambda: torch.tensor(torch.tensor(5, dtype=torch.int64).item() % 2),
        "lr_tensor": lambda: torch.tensor(0.125, dtype=torch.float), "to_same_dtype_is_self": lambda: torch.tensor(float((lambda t: t.to(dtype=torch.float32) is t)(T([1.0])))),
        "to_other_dtype_copies": lambda: torch.tensor(float((lambda t: t.to(dtype=torch.float64) is t)(T([1.0])))),
        # second batch of API (refactorings / alternative formulations may use it)
        "m_diag_vec": lambda: T([1.0, 2.0]).diag(), "m_diag_mat": lambda: T([[1.0, 2.0], [3.0, 4.0]]).diag(), "allclose_t": lambda: torch.tensor(float(torch.allclose(T([1.0, 2.0]), T([1.0, 2.0 + 1e-7])))),
        "allclose_f": lambda: torch.tensor(float(torch.allclose(T([[1.0, 1e-3], [1e-3, 2.0]]), T([1.0, 2.0]).diag()))), "isclose": lambda: torch.isclose(T([1.0, 2.0, 0.0]), T([1.0, 2.1, 1e-9])).to(torch.float32),
        "clamp": lambda: T([-1.0, 0.5, 3.0]).clamp(min=0.0, max=1.0), "clamp_min": lambda: torch.clamp(T([-1.0, 0.5]), min=0.25), "clamp_inplace": lambda: T([-1.0, 0.5, 3.0]).clamp_(max=1.0),
        "sign": lambda: torch.sign(T([-2.0, 0.0, 3.0])), "argsort_desc": lambda: torch.argsort(T([3.0, 1.0, 2.0]), descending=True), "argsort_stable": lambda: T([2.0, 1.0, 2.0, 1.0]).argsort(stable=True),
        "sort_vals": lambda: torch.sort(T([3.0, 1.0, 2.0])).values, "sort_idx": lambda: T([3.0, 1.0, 2.0]).sort(descending=True).indices, "argmax": lambda: T([[1.0, 5.0], [3.0, 2.0]]).argmax(),
        "argmin": lambda: torch.argmin(T([4.0, 1.0, 3.0])), "amax_dim": lambda: A().amax(dim=1), "amin": lambda: A().amin(), "prod": lambda: A().prod(), "prod_dim": lambda: torch.prod(A(), dim=0),
        "cumsum": lambda: torch.cumsum(A(), dim=1), "nonzero": lambda: torch.nonzero(T([0.0, 2.0, 0.0, 3.0])), "flip": lambda: torch.flip(A(), dims=(1,)), "chunk": lambda: torch.chunk(T([1.0, 2.0, 3.0, 4.0, 5.0]), 2)[1],
        "index_select": lambda: torch.index_select(A(), 1, torch.tensor([2, 0])), "masked_fill": lambda: A().masked_fill(A() > 3.0, -1.0), "expand": lambda: T([[1.0], [2.0]]).expand(2, 3),
        "expand_m1": lambda: T([[1.0], [2.0]]).expand(-1, 2), "repeat": lambda: T([1.0, 2.0]).repeat(2, 2), "unflatten": lambda: T([1.0, 2.0, 3.0, 4.0, 5.0, 6.0]).unflatten(0, (2, 3)),
        "view_as": lambda: T([1.0, 2.0, 3.0, 4.0, 5.0, 6.0]).view_as(A()), "type_as": lambda: T([1.0]).type_as(T([1.0], torch.float64)), "new_ones": lambda: T([1.0], torch.float64).new_ones((2,)),
        "new_full": lambda: T([1.0], torch.bfloat16).new_full((2,), 3.0), "mT": lambda: A().mT, "multi_dot": lambda: torch.linalg.multi_dot([A(), A().T, T([[1.0], [2.0]])]), "mv": lambda: torch.mv(A(), T([1.0, 0.0, 2.0])),
        "logical_not": lambda: torch.logical_not(A() > 3.0).to(torch.float32), "logical_and": lambda: torch.logical_and(A() > 1.0, A() < 5.0).to(torch.float32), "ge_method": lambda: A().ge(3.0).to(torch.float32),
        "select": lambda: A().select(1, 2), "unbind": lambda: A().unbind(0)[1], "foreach_sub": lambda: torch._foreach_sub([T([3.0, 4.0])], [T([1.0, 1.0])], alpha=0.5)[0], "foreach_neg": lambda: torch._foreach_neg([T([3.0, -4.0])])[0],
        "foreach_abs": lambda: torch._foreach_abs([T([3.0, -4.0])])[0], "foreach_reciprocal": lambda: torch._foreach_reciprocal([T([2.0, -4.0])])[0], "foreach_pow": lambda: torch._foreach_pow([T([2.0, 3.0])], 2)[0],
        "foreach_addcmul": lambda: torch._foreach_addcmul([T([1.0, 1.0])], [T([2.0, 3.0])], [T([4.0, 5.0])], value=0.5)[0], "foreach_addcdiv": lambda: torch._foreach_addcdiv([T([1.0, 1.0])], [T([2.0, 3.0])], [T([4.0, 6.0])], value=2.0)[0],
        "foreach_maximum": lambda: torch._foreach_maximum([T([1.0, 5.0])], [T([2.0, 3.0])])[0], "foreach_clamp_min": lambda: torch._foreach_clamp_min([T([1.0, 5.0])], 2.0)[0],
        "index_copy_": lambda: torch.empty_like(A()).index_copy_(1, torch.tensor([2, 0, 1]), A()), "index_copy": lambda: torch.zeros(3, 2).index_copy(0, torch.tensor([1, 2]), T([[1.0, 2.0], [3.0, 4.0]])),
        "index_add_": lambda: torch.ones(2, 3).index_add_(1, torch.tensor([0, 0]), T([[1.0, 2.0], [3.0, 4.0]]), alpha=0.5), "index_fill_": lambda: A().index_fill_(1, torch.tensor([0, 2]), -1.0),
        "gather": lambda: torch.gather(A(), 1, torch.tensor([[2, 0], [1, 1]])), "scatter_": lambda: torch.zeros(2, 3).scatter_(1, torch.tensor([[2, 0], [1, 2]]), T([[1.0, 2.0], [3.0, 4.0]])),
        "take_along_dim": lambda: torch.take_along_dim(A(), torch.tensor([[2], [0]]), dim=1),
        "sub_out": lambda: (lambda buf: (torch.sub(A(), 1.0, out=buf), buf)[1])(torch.empty(2, 3)), "vector_norm_out": lambda: (lambda buf: (torch.linalg.vector_norm(A(), torch.inf, out=buf), buf)[1])(torch.empty(())),
        "matmul_out": lambda: (lambda buf: (torch.matmul(A(), A().T, out=buf), buf)[1])(torch.empty(2, 2)), "qr_out_Q_abs": lambda: (lambda q, r: (torch.linalg.qr(T([[2.0, 0.0], [0.0, 3.0]]), out=(q, r)), q.abs())[1])(torch.empty(2, 2), torch.empty(2, 2)),
        "promote_bf16_f32": lambda: torch.zeros(1, dtype=torch.promote_types(torch.bfloat16, torch.float32)), "promote_f64_f32": lambda: torch.zeros(1, dtype=torch.promote_types(torch.float64, torch.float32)),
        "narrow_copy": lambda: A().narrow_copy(1, 1, 2),
        "movedim": lambda: torch.arange(24, dtype=torch.float32).reshape(2, 3, 4).movedim(0, -1), "swapaxes": lambda: torch.arange(6, dtype=torch.float32).reshape(1, 2, 3).swapaxes(1, 2),
        "flatten_range": lambda: torch.arange(24, dtype=torch.float32).reshape(2, 3, 4).flatten(1, 2), "ravel": lambda: A().T.ravel(), "moveaxis_fn": lambda: torch.moveaxis(A(), 0, 1),
        "as_strided": lambda: torch.arange(12, dtype=torch.float32)[2:].as_strided((2, 2), (3, 1), 3), "as_strided_default_offset": lambda: torch.arange(12, dtype=torch.float32)[4:10].as_strided((2, 2), (2, 1)),
        "multiply_alias": lambda: torch.multiply(A(), 2.0), "true_divide": lambda: torch.true_divide(A(), 2.0), "abs_inplace": lambda: T([-1.0, 2.0]).abs_(), "eye_argsort_cols": lambda: torch.eye(3)[:, T([3.0, 1.0, 2.0]).argsort(stable=True)],
    }.items():
        rec(nm, lambda f=f: _desc(f()))
    # --- errors
    for nm, f in {
        "matmul_dtype_mismatch": lambda: T([[1.0]], torch.float32) @ T([[1.0]], torch.bfloat16), "tensordot_dtype_mismatch": lambda: torch.tensordot(T([[1.0]]), T([[1.0]], torch.float64), dims=([0], [0])),
        "foreach_empty": lambda: torch._foreach_mul_([], 2.0), "foreach_empty_add": lambda: torch._foreach_add_([], []), "foreach_div_empty": lambda: torch._foreach_div([], 2.0),
        "foreach_lerp_empty": lambda: torch._foreach_lerp([], [], weight=0.5), "foreach_norm_empty": lambda: torch._foreach_norm([]), "foreach_copy_empty": lambda: torch._foreach_copy_([], []),
        "view_bad_shape": lambda: A().view(4), "view_noncontig": lambda: A().T.view(6), "narrow_oob": lambda: T([1.0, 2.0]).narrow(0, 1, 2), "split_sizes_bad": lambda: torch.split(T([1.0, 2.0, 3.0]), [1, 1]),
        "bool_of_vector": lambda: bool(T([1.0, 2.0])), "int_add_float_inplace": lambda: torch.tensor([1, 2]).add_(0.5), "matmul_shape": lambda: A() @ A(),
        "lerp_dtype_mismatch": lambda: torch._foreach_lerp([T([1.0])], [T([2.0], torch.float64)], weight=0.5),
    }.items():
        rec("err_" + nm, lambda f=f: _desc(f()) if f() is not None else dict(ok=True))
    # --- aliasing: mutate the result of an op, report whether the source changed
    def alias(make, op):
        src = make()
        res = op(src)
        first = res[0] if isinstance(res, (tuple, list)) else res
        before = _vals(src)
        first.add_(100.0) if first.numel() else None
        return dict(aliases=_vals(src) != before, result=_desc(first))

    for nm, op in {
        "view": lambda t: t.view(3, 2), "view_minus1": lambda t: t.view(-1), "split_dim1": lambda t: torch.split(t, 2, dim=1), "narrow": lambda t: t.narrow(1, 1, 2), "permute": lambda t: t.permute(1, 0),
        "T": lambda t: t.T, "detach": lambda t: t.detach(), "unsqueeze": lambda t: t.unsqueeze(0), "clone": lambda t: t.clone(), "to_same": lambda t: t.to(dtype=torch.float32), "to_f64": lambda t: t.to(dtype=torch.float64),
        "getitem_row": lambda t: t[0], "diagonal": lambda t: torch.diagonal(t[:, :2]), "div_scalar": lambda t: t / 2.0, "foreach_lerp": lambda t: torch._foreach_lerp([t], [t * 2], weight=0.5),
        "as_strided": lambda t: t.as_strided((2, 2), (3, 1), 1), "movedim": lambda t: t.movedim(0, -1), "swapaxes": lambda t: t.swapaxes(0, 1), "flatten_contig": lambda t: t.flatten(), "flatten_noncontig": lambda t: t.T.flatten(),
        "narrow_copy": lambda t: t.narrow_copy(1, 0, 2), "sub_out_same": lambda t: torch.sub(t, 1.0, out=t), "select": lambda t: t.select(0, 1), "unbind": lambda t: t.unbind(1), "flip": lambda t: t.flip((0,)), "clamp": lambda t: t.clamp(min=2.0), "expand_as_self": lambda t: t.expand(2, 3), "mT": lambda t: t.mT,
        "chunk": lambda t: t.chunk(2, dim=1), "masked_fill": lambda t: t.masked_fill(t > 2.0, 0.0), "index_select": lambda t: t.index_select(0, torch.tensor([1])), "diag_method": lambda t: t[:, :2].diag(),
        "foreach_div": lambda t: torch._foreach_div([t], 2.0), "tensordot": lambda t: torch.tensordot(t, torch.eye(2), dims=([0], [0])), "split_then_view": lambda t: torch.split(t.view(-1), [2, 4])[1].view(2, 2),
    }.items():
        rec("alias_" + nm, lambda op=op: alias(A, op))
    # --- in-place family used by the optimizer
    def inplace():
        x, y, z = T([1.0, 2.0]), T([3.0, 5.0]), T([0.5, 0.25])
        torch._foreach_mul_([x], 0.5)
        torch._foreach_add_([x], [y], alpha=0.25)
        torch._foreach_addcmul_([x], [y], [y], value=0.5)
        torch._foreach_lerp_([z], [y], weight=0.25)
        w = torch._foreach_div([x], torch.tensor(2.0))
        torch._foreach_sqrt_(w)
        torch._foreach_add_(w, 0.5)
        torch._foreach_copy_([y], [z])
        torch._foreach_div_([z], [x])
        torch._foreach_mul_([z], -torch.tensor(0.125))
        return dict(x=_desc(x), y=_desc(y), z=_desc(z), w=_desc(w[0]))

    rec("inplace_family", inplace)

    def copy_cast():
        a = torch.zeros(2, dtype=torch.float64)
        a.copy_(T([1.5, 2.5]))
        b = torch.tensor(True)
        b.copy_(torch.tensor(False))
        return dict(a=_desc(a), b=_desc(b), b_truth=bool(b))

    rec("copy_cast", copy_cast)

    # --- the int8 gather buffer with typed views
    def buffer():
        g = torch.zeros(256, dtype=torch.int8)
        segs = torch.split(g, 128)
        parts = torch.split(segs[1], [64, 64])
        v = parts[0].split(3 * 4)[0].view(torch.float32).view((3,))
        v.copy_(T([1.0, 2.0, 3.0]))
        w = segs[1].split(12)[0].view(torch.float32)
        bf = parts[1].split(2 * 2)[0].view(torch.bfloat16).view((2,))
        bf.copy_(T([0.5, 4.0]))
        return dict(v=_desc(v), same_cells=_vals(w), offset_v=v.storage_offset(), bf=_desc(bf),
                    seg0_untouched=sum(abs(x) for x in _vals(segs[0])) == 0, numel_g=g.numel())

    rec("gather_buffer", buffer)
    return out


def trajectories(n_cases=12, seed=0):
    """The real DistributedShampoo on float64 parameters: parameter values after every step (both worlds run this)."""
    import random

    import torch
    from distributed_shampoo.distributed_shampoo import DistributedShampoo
    from distributed_shampoo.shampoo_types import (AdaGradGraftingConfig, AdamGraftingConfig, RMSpropGraftingConfig, SGDGraftingConfig,
                                                   ShampooPreconditionerConfig, EigenvalueCorrectedShampooPreconditionerConfig)
    from matrix_functions_types import QRConfig, CoupledNewtonConfig, EigenConfig

    if _is_shim(torch):
        from vlib import symx

        symx.CTX.mode = "concrete"
        symx.CTX.opts["eigh"] = None
        symx.CTX.opts["qr"] = None
    rng = random.Random(seed)
    out = []
    dy = lambda: rng.choice([0.0, 0.25, 0.5, 0.75])  # noqa: E731  dyadic values: exact in float32 too
    for case in range(n_cases):
        shapes = rng.choice([[(2, 3)], [(3,), (2, 2)], [(2, 2, 2)], [(4,), ()], [(3, 2), (2,)]])
        graft = rng.choice([None, SGDGraftingConfig(), AdaGradGraftingConfig(epsilon=0.5), RMSpropGraftingConfig(beta2=0.5, epsilon=0.25), AdamGraftingConfig(beta2=0.75, epsilon=0.5)])
        prec = rng.choice([ShampooPreconditionerConfig(), ShampooPreconditionerConfig(amortized_computation_config=EigenConfig(enhance_stability=True)),
                           EigenvalueCorrectedShampooPreconditionerConfig(), EigenvalueCorrectedShampooPreconditionerConfig(amortized_computation_config=QRConfig()),
                           ShampooPreconditionerConfig(amortized_computation_config=CoupledNewtonConfig(max_iterations=30, tolerance=1e-12))])
        kw = dict(lr=rng.choice([0.125, 0.5]), betas=(dy() * rng.choice([0, 1]), rng.choice([0.5, 0.75, 1.0])), beta3=rng.choice([-1.0, 0.25]), epsilon=rng.choice([0.5, 0.125]),
                  momentum=rng.choice([0.0, 0.5]), dampening=rng.choice([0.0, 0.25]), weight_decay=rng.choice([0.0, 0.25]), max_preconditioner_dim=rng.choice([2, 3, 8]),
                  precondition_frequency=rng.choice([1, 2]), start_preconditioning_step=rng.choice([2, 3]), use_nesterov=rng.random() < 0.5, use_bias_correction=rng.random() < 0.5,
                  use_decoupled_weight_decay=rng.random() < 0.5, grafting_config=graft, use_merge_dims=rng.random() < 0.5, preconditioner_dtype=torch.float64, preconditioner_config=prec)
        soap = isinstance(prec, EigenvalueCorrectedShampooPreconditionerConfig)
        nsteps = 4
        if soap:
            # eigenvectors are only unique (up to sign, which SOAP is invariant to) for distinct eigenvalues: let the factor
            # matrices reach full rank before the first basis is computed
            kw["start_preconditioning_step"] = 5
            kw["betas"] = (kw["betas"][0], rng.choice([0.5, 0.75]))
            nsteps = 7
        params = []
        for s in shapes:
            n = math.prod(s)
            vals = [round(rng.uniform(-2, 2) * 8) / 8 for _ in range(n)]
            params.append(torch.nn.Parameter(torch.tensor(vals, dtype=torch.float64).view(s) if s else torch.tensor(vals[0], dtype=torch.float64)))
        try:
            opt = DistributedShampoo(params, **kw)
        except Exception as e:
            out.append(dict(case=case, raised=type(e).__name__))
            continue
        traj = []
        for k in range(nsteps):
            for p, s in zip(params, shapes):
                n = math.prod(s)
                if rng.random() < 0.15 and len(params) > 1:
                    p.grad = None
                else:
                    vals = [round(rng.uniform(-2, 2) * 8) / 8 for _ in range(n)]
                    p.grad = torch.tensor(vals, dtype=torch.float64).view(s) if s else torch.tensor(vals[0], dtype=torch.float64)
            if all(p.grad is None for p in params):
                params[0].grad = torch.ones_like(params[0])
            try:
                opt.step()
                traj.append([_vals(p) for p in params])
            except Exception as e:
                traj.append(dict(raised=type(e).__name__))
                break
        out.append(dict(case=case, traj=traj))
    return out


if __name__ == "__main__":
    logging.disable(logging.CRITICAL)
    what = sys.argv[1] if len(sys.argv) > 1 else "ops"
    if what == "both":
        print(json.dumps(dict(ops=scenarios(), traj=trajectories(int(sys.argv[2]) if len(sys.argv) > 2 else 12, int(sys.argv[3]) if len(sys.argv) > 3 else 0))))
    elif what == "ops":
        print(json.dumps(scenarios()))
    else:
        print(json.dumps(trajectories(int(sys.argv[2]) if len(sys.argv) > 2 else 12, int(sys.argv[3]) if len(sys.argv) > 3 else 0)))
