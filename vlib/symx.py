"""symx -- symbolic scalars over z3 and a re-execution path explorer.

The repository code is ordinary Python; it is executed symbolically by operator overloading:
hyperparameters, tensor entries, counters, keys are instances of the classes below, every
`if` on one of them ends in `SymBool.__bool__` -> `Ctx.decide`, which asks z3 which sides are
feasible and follows one; the explorer re-executes the harness once per feasible decision
prefix (depth first).  See DESIGN.md section 1.1.

Scalars
  SymReal  rational function  n / prod(df)  over z3 Reals (denominator kept as a multiset of
           factors), with an incremental fingerprint: its value at a fixed random point of
           GF(2^61-1) (seeded by VERIF_SEED).  z3's own `/` never appears in an identity.
  SymInt   z3 Int term.     SymBool  z3 Bool term.     SymFP  z3 Float64 term (C17 only).
  SymStr   z3 String term with solver-decided equality (C16 only).
Atoms (sqrt, q-th roots, beta**k for symbolic k, rounding to a dtype, norms) are fresh variables
with defining constraints, memoised on the fingerprint of their argument.
"""
from __future__ import annotations

import os
import random
import time
from fractions import Fraction

import z3

P = (1 << 61) - 1
SOM_BLOWUP = int(os.environ.get("VERIF_SOM_BLOWUP", "10"))
SEED = int(os.environ.get("VERIF_SEED", "0") or 0)


class PathEnd(BaseException):
    """The current path stops here (infeasible, budget, or deliberately cut)."""


class Restart(BaseException):
    """A tested equality `var == const|var` was taken: re-run with the variable pinned."""

    def __init__(self, pin):
        super().__init__(str(pin))
        self.pin = pin


class PathViolation(BaseException):
    """An obligation was refuted on this path (a z3 model exists)."""

    def __init__(self, record):
        super().__init__(record.get("label"))
        self.record = record


class HarnessError(Exception):
    """The harness / shim cannot represent something: inconclusive, never a violation."""


def _inv(x):
    return pow(x % P, P - 2, P)


def _name_fp(name):
    return random.Random(f"{SEED}:{name}").randrange(2, P - 1)


def frac(x):
    if isinstance(x, Fraction):
        return x
    if isinstance(x, bool):
        return Fraction(int(x))
    if isinstance(x, int):
        return Fraction(x)
    if isinstance(x, float):
        return Fraction(x)
    raise TypeError(type(x))


def ratval(q):
    return z3.RealVal(f"{q.numerator}/{q.denominator}") if q.denominator != 1 else z3.RealVal(q.numerator)


# ----------------------------------------------------------------------------------------------
# context of the current path
# ----------------------------------------------------------------------------------------------
class Ctx:
    def __init__(self):
        self.opts = {}
        self.reset({}, [], {})

    def reset(self, pins, prefix, opts=None):
        if opts is not None:
            self.opts = dict(opts)
        self.mode = "symbolic"
        self.pins = dict(pins)
        self.prefix = list(prefix)
        self.decisions = []  # (kind, value, short text)
        self.pc = []  # every literal assumed on this path (control and data)
        self.pc_data = 0
        self.assumptions = []  # domain / representation-invariant constraints (also in pc)
        self.atoms = {}
        self.defs = []
        self.atom_checks = []
        self.known = {}
        self.control = set()
        self.realnames = set()
        self.shared = {}
        self.nonneg_fps = set()
        self.datavars = set()
        self.nfresh = 0
        self.solver = z3.Solver()
        self.solver.set("timeout", int(self.opts.get("feas_timeout_ms", 10000)))
        self.stats = dict(queries=0, unsat=0, sat=0, unknown=0, solver_s=0.0, stage1=0, stage2=0, stage3=0,
                          feas_queries=0, data_forks=0, ctrl_forks=0, cuts=0, obligations=0)
        self.cut_notes = []
        self.calllog = []  # stub call log (atom names per call) for replay
        self.events = []  # free-form trace of the path for evidence samples
        self.values = None  # concrete mode: name -> float
        self.concrete_failures = []
        self.eq_seen = []
        self.t0 = time.time()
        self.deadline = self.t0 + float(self.opts.get("path_budget_s", 600))

    # -- variables
    def fresh_name(self, base):
        self.nfresh += 1
        return f"{base}!{self.nfresh}"

    def assume(self, e, control=True):
        """Add a domain constraint / representation invariant (a z3 Bool)."""
        if isinstance(e, SymBool):
            e = e.e
        e = z3.simplify(e)
        if z3.is_true(e):
            return
        self.pc.append(e)
        self.assumptions.append(e)
        if control:
            self.solver.add(e)

    # -- branching
    def is_control(self, e):
        return all(str(v) in self.control for v in _vars(e))

    def decide(self, sb):
        if self.mode == "concrete":
            raise HarnessError("symbolic decision in concrete mode")
        cond = z3.simplify(sb.e)
        if z3.is_true(cond):
            return True
        if z3.is_false(cond):
            return False
        key = cond.get_id()
        if key in self.known:
            return self.known[key][0]
        if time.time() > self.deadline:
            raise PathEnd("path budget exhausted")
        i = len(self.decisions)
        ctrl = self.is_control(cond)
        cut = False
        if i < len(self.prefix):
            v, kind = self.prefix[i], "replay"
        elif not ctrl:
            pol = self.opts.get("data_policy")
            forced = pol(sb, cond) if pol is not None else None
            if forced is None:
                v, kind = True, "fork"
                self.stats["data_forks"] += 1
            else:
                v, kind, cut = forced, "cut", True
                self.stats["cuts"] += 1
        else:
            t, f = self._feasible(cond), self._feasible(z3.Not(cond))
            if t and f:
                v, kind = True, "fork"
                self.stats["ctrl_forks"] += 1
            elif t:
                v, kind = True, "forced"
            elif f:
                v, kind = False, "forced"
            else:
                raise PathEnd("infeasible path")
        # a taken equality `var == const|var` becomes a pin (equality regime), see DESIGN 1.1
        if v and sb.pin is not None and kind in ("fork", "forced", "replay") and not self.opts.get("no_pins"):
            name, val = sb.pin
            if name not in self.pins and (ctrl or name in self.datavars):
                if kind == "forced":
                    pass  # implied by the domain: pin as well, there is no other side
                self.decisions.append((kind, v, _short(cond)))
                raise Restart((name, val))
        self.decisions.append((kind, v, _short(cond)))
        lit = cond if v else z3.Not(cond)
        self.pc.append(lit)
        if cut:
            self.cut_notes.append(_short(lit))
        if ctrl:
            self.solver.add(lit)
        else:
            self.pc_data += 1
        ncond = z3.simplify(z3.Not(cond))
        self.known[key] = (v, cond)  # the term is kept alive: z3 recycles the ids of collected terms
        self.known[ncond.get_id()] = (not v, ncond)
        return v

    def _feasible(self, c):
        self.stats["feas_queries"] += 1
        self.solver.push()
        self.solver.add(c)
        t = time.time()
        r = self.solver.check()
        self.stats["solver_s"] += time.time() - t
        self.solver.pop()
        return r != z3.unsat  # unknown counts as feasible (over-approximation of the path set)


CTX = Ctx()


def _vars(e):
    seen, out, stack = set(), [], [e]
    while stack:
        x = stack.pop()
        i = x.get_id()
        if i in seen:
            continue
        seen.add(i)
        if z3.is_const(x) and x.decl().kind() == z3.Z3_OP_UNINTERPRETED:
            out.append(x)
        else:
            stack.extend(x.children())
    return out


def _short(e, n=90):
    s = str(e).replace("\n", " ")
    s = " ".join(s.split())
    return s if len(s) <= n else s[: n - 3] + "..."


# ----------------------------------------------------------------------------------------------
# booleans
# ----------------------------------------------------------------------------------------------
class SymBool:
    __slots__ = ("e", "pin")

    def __init__(self, e, pin=None):
        self.e = e
        self.pin = pin

    def __bool__(self):
        return CTX.decide(self)

    @staticmethod
    def lift(o):
        if isinstance(o, SymBool):
            return o.e
        if isinstance(o, (bool, int)):
            return z3.BoolVal(bool(o))
        return None

    def __and__(s, o):
        b = SymBool.lift(o)
        return NotImplemented if b is None else SymBool(z3.And(s.e, b))

    __rand__ = __and__

    def __or__(s, o):
        b = SymBool.lift(o)
        return NotImplemented if b is None else SymBool(z3.Or(s.e, b))

    __ror__ = __or__

    def __xor__(s, o):
        b = SymBool.lift(o)
        return NotImplemented if b is None else SymBool(z3.Xor(s.e, b))

    __rxor__ = __xor__

    def __invert__(s):
        return SymBool(z3.Not(s.e))

    def __eq__(s, o):
        b = SymBool.lift(o)
        return NotImplemented if b is None else SymBool(s.e == b)

    def __ne__(s, o):
        b = SymBool.lift(o)
        return NotImplemented if b is None else SymBool(s.e != b)

    __hash__ = None

    def __repr__(s):
        return f"SymBool({_short(s.e)})"


def symbool(name, control=True):
    if CTX.mode == "concrete":
        return bool(CTX.values.get(name, False))
    if name in CTX.pins:
        return bool(CTX.pins[name])
    if control:
        CTX.control.add(name)
    return SymBool(z3.Bool(name))


# ----------------------------------------------------------------------------------------------
# reals
# ----------------------------------------------------------------------------------------------
ZERO_Q, ONE_Q = Fraction(0), Fraction(1)


class SymReal:
    """n / prod(df):  n a z3 Real term (or the constant c), df = {fingerprint: (term, multiplicity)}."""

    __slots__ = ("_n", "c", "df", "fn", "vname")

    def __init__(self, n=None, df=None, fn=None, c=None, vname=None):
        self._n = n
        self.c = c
        self.df = df or {}
        self.vname = vname
        if c is not None:
            fn = (c.numerator % P) * _inv(c.denominator) % P
        self.fn = fn % P

    @property
    def n(self):
        if self._n is None:
            self._n = ratval(self.c)
        return self._n

    @staticmethod
    def const(x):
        return SymReal(c=frac(x))

    @property
    def is_const(self):
        return self.c is not None

    @property
    def d(self):
        e = None
        for _, (ex, m) in sorted(self.df.items()):
            for _ in range(m):
                e = ex if e is None else e * ex
        return z3.RealVal(1) if e is None else e

    @property
    def fd(self):
        v = 1
        for f, (_, m) in self.df.items():
            v = v * pow(f, m, P) % P
        return v

    @property
    def fp(self):
        return self.fn * _inv(self.fd) % P if self.df else self.fn

    def term(self):
        """z3 term of the value itself (uses `/` -- only for comparisons and models)."""
        return self.n / self.d if self.df else self.n

    @staticmethod
    def lift(o):
        if isinstance(o, SymReal):
            return o
        if isinstance(o, (int, float, Fraction)) and not isinstance(o, bool):
            return SymReal(c=frac(o))
        if isinstance(o, bool):
            return SymReal(c=Fraction(int(o)))
        if isinstance(o, SymInt):
            return o.to_real()
        return None

    # -- helpers on denominators
    @staticmethod
    def _scale(x, target):
        n, fn = x.n, x.fn
        for f, (ex, m) in target.items():
            k = m - x.df.get(f, (None, 0))[1]
            for _ in range(k):
                n = n * ex
                fn = fn * f % P
        return n, fn

    @staticmethod
    def _lcm(a, b):
        t = dict(a)
        for f, (ex, m) in b.items():
            if f not in t or t[f][1] < m:
                t[f] = (ex, m)
        return t

    @staticmethod
    def _mulden(a, b):
        if not b:
            return a
        t = dict(a)
        for f, (ex, m) in b.items():
            t[f] = (ex, t.get(f, (ex, 0))[1] + m)
        return t

    # -- arithmetic
    def __add__(s, o):
        o = SymReal.lift(o)
        if o is None:
            return NotImplemented
        if s.c is not None and o.c is not None:
            return SymReal(c=s.c + o.c)
        if s.c == 0:
            return o
        if o.c == 0:
            return s
        if s.df == o.df or (not s.df and not o.df):
            return SymReal(s.n + o.n, s.df, s.fn + o.fn)
        t = SymReal._lcm(s.df, o.df)
        an, afn = SymReal._scale(s, t)
        bn, bfn = SymReal._scale(o, t)
        return SymReal(an + bn, t, afn + bfn)

    __radd__ = __add__

    def __neg__(s):
        if s.c is not None:
            return SymReal(c=-s.c)
        return SymReal(-s.n, s.df, -s.fn)

    def __pos__(s):
        return s

    def __sub__(s, o):
        o = SymReal.lift(o)
        return NotImplemented if o is None else s + (-o)

    def __rsub__(s, o):
        o = SymReal.lift(o)
        return NotImplemented if o is None else o + (-s)

    def __mul__(s, o):
        o = SymReal.lift(o)
        if o is None:
            return NotImplemented
        if s.c is not None and o.c is not None:
            return SymReal(c=s.c * o.c)
        if s.c is not None:
            s, o = o, s
        if o.c is not None:
            if o.c == 0:
                return o
            if o.c == 1:
                return s
            if o.c == -1:
                return -s
        return SymReal(s.n * o.n, SymReal._mulden(s.df, o.df), s.fn * o.fn)

    __rmul__ = __mul__

    def __truediv__(s, o):
        o = SymReal.lift(o)
        if o is None:
            return NotImplemented
        if o.c is not None:
            if o.c == 0:
                raise ZeroDivisionError("symbolic division by the constant 0")
            return s * SymReal(c=1 / o.c)
        if s.c == 0:
            return s
        # s / o = s.n * prod(o.df) / (s.df * o.n)
        n, fn = s.n, s.fn
        for f, (ex, m) in o.df.items():
            for _ in range(m):
                n = n * ex
                fn = fn * f % P
        return SymReal(n, SymReal._mulden(s.df, {o.fn: (o.n, 1)}), fn)

    def __rtruediv__(s, o):
        o = SymReal.lift(o)
        return NotImplemented if o is None else o / s

    def __pow__(s, k):
        if isinstance(k, bool):
            k = int(k)
        if isinstance(k, int):
            if k >= 0:
                r = SymReal(c=ONE_Q)
                for _ in range(k):
                    r = r * s
                return r
            return SymReal(c=ONE_Q) / (s ** (-k))
        if isinstance(k, SymInt):
            return powk(s, k)
        if isinstance(k, (float, Fraction)):
            q = frac(k).limit_denominator(4096)
            if abs(float(q) - float(k)) > 1e-9:
                raise HarnessError(f"non-rational exponent {k}")
            r = root(s, q.denominator) if q.denominator != 1 else s
            return r ** q.numerator
        if isinstance(k, SymReal) and k.c is not None:
            return s ** k.c
        return NotImplemented

    def __rpow__(s, base):
        # base ** s with s symbolic: only for integer-valued s wrapped as a real (step counters)
        b = SymReal.lift(base)
        if b is None:
            return NotImplemented
        if s.c is not None:
            return b ** (int(s.c) if s.c.denominator == 1 else s.c)
        return powk(b, s)

    def __abs__(s):
        if s.c is not None:
            return SymReal(c=abs(s.c))
        return absval(s)

    # -- comparisons
    def _cmp(s, o, op, pin=False):
        if isinstance(o, float) and (o != o or o in (float("inf"), float("-inf"))):
            return op(0.0, o)  # every real compares with an infinity / NaN like 0.0 does
        o2 = SymReal.lift(o)
        if o2 is None:
            return NotImplemented
        if s.c is not None and o2.c is not None:
            return op(s.c, o2.c)
        if not s.df and not o2.df:
            e = op(s.n, o2.n)
        elif all(f in CTX.nonneg_fps for f in s.df) and all(f in CTX.nonneg_fps for f in o2.df):
            # every denominator factor is a non-negative atom (root / norm) and non-zero where the quotient is defined,
            # hence positive: compare cross-multiplied, without z3's division
            t = SymReal._lcm(s.df, o2.df)
            an, _ = SymReal._scale(s, t)
            bn, _ = SymReal._scale(o2, t)
            e = op(an, bn)
        else:
            e = op(s.term(), o2.term())
        p = None
        if pin:
            if s.vname is not None and o2.c is not None:
                p = (s.vname, o2.c)
            elif o2.vname is not None and s.c is not None:
                p = (o2.vname, s.c)
            elif s.vname is not None and o2.vname is not None and s.vname != o2.vname:
                p = (s.vname, o2.vname)
        return SymBool(e, p)

    def __lt__(s, o):
        return s._cmp(o, lambda a, b: a < b)

    def __le__(s, o):
        return s._cmp(o, lambda a, b: a <= b)

    def __gt__(s, o):
        return s._cmp(o, lambda a, b: a > b)

    def __ge__(s, o):
        return s._cmp(o, lambda a, b: a >= b)

    def __eq__(s, o):
        return s._cmp(o, lambda a, b: a == b, pin=True)

    def __ne__(s, o):
        r = s._cmp(o, lambda a, b: a == b, pin=True)
        if r is NotImplemented:
            return r
        if isinstance(r, bool):
            return not r
        return _NegPin(r)

    __hash__ = None

    def __float__(s):
        if s.c is not None:
            return float(s.c)
        raise HarnessError("float() of a symbolic real")

    def __repr__(s):
        return f"SymReal({s.c})" if s.c is not None else f"SymReal(fp={s.fp})"


class _NegPin(SymBool):
    """`a != b`: deciding it False is taking the equality, which pins."""

    __slots__ = ("pos",)

    def __init__(self, pos):
        SymBool.__init__(self, z3.Not(pos.e), None)
        self.pos = pos

    def __bool__(self):
        return not CTX.decide(self.pos)

    def __invert__(s):
        return s.pos


def _mkvar(name, control):
    if name in CTX.pins:
        p = CTX.pins[name]
        if isinstance(p, str):
            return _mkvar(p, control)
        return float(frac(p)) if CTX.mode == "concrete" else SymReal(c=frac(p))
    if CTX.mode == "concrete":
        g = CTX.opts.get("generic_seed")
        if g is not None:
            # generic replay: tensor contents take generic values (the candidate's own values were degenerate or there was no model);
            # hyperparameters keep the candidate's values, or a default inside the documented domain
            if not control:
                return _generic_value(name, g)
            if name not in CTX.values:
                return float(_HP_GENERIC.get(name.split("_")[0], 0.5))
        return float(CTX.values.get(name, 0.0))
    (CTX.control if control else CTX.datavars).add(name)
    CTX.realnames.add(name)
    return SymReal(z3.Real(name), None, _name_fp(name), vname=name)


_HP_GENERIC = dict(lr=0.25, b1=0.5, b2=0.75, b3=0.625, eps=0.125, wd=0.125, mom=0.5, damp=0.25, geps=0.25, gb2=0.875, tol=0.001)


def _generic_value(name, seed):
    import hashlib

    h = int(hashlib.sha256(f"{name}|{seed}".encode()).hexdigest()[:12], 16)
    v = ((h % 4001) - 2000) / 1000.0  # [-2, 2], three decimals
    return v if abs(v) >= 0.05 else (0.37 if h % 2 else -0.41)


def hp(name):
    """A control variable (hyperparameter): conditions over such variables are decided by the solver."""
    return _mkvar(name, True)


def var(name):
    """A data variable (tensor content): conditions over data fork without a feasibility call."""
    return _mkvar(name, False)


def fresh(base, control=False):
    return _mkvar(CTX.fresh_name(base), control)


def _atom(key, base, mkdefs, arg=None):
    """Memoised fresh variable for a non-polynomial function application."""
    if key in CTX.atoms:
        v, arg0 = CTX.atoms[key]
        if arg is not None and arg0 is not None:
            CTX.atom_checks.append((arg0, arg))
        return v
    name = CTX.fresh_name(base)
    CTX.datavars.add(name)
    v = SymReal(z3.Real(name), None, _name_fp(name), vname=None)
    for d in mkdefs(v):
        CTX.defs.append(d)
    CTX.atoms[key] = (v, arg)
    if key[0] in ("root", "abs") or (isinstance(key[0], str) and key[0].startswith(("norm", "matnorm"))):
        CTX.nonneg_fps.add(v.fn)
    return v


def root(x, q):
    """x ** (1/q) for x >= 0 (principal root)."""
    if not isinstance(x, SymReal):
        return float(x) ** (1.0 / q)
    if q == 1:
        return x
    if x.c is not None:
        # exact rational roots of constants where they exist (0, 1, perfect powers)
        num, den = x.c.numerator, x.c.denominator
        if num >= 0:
            rn, rd = _iroot(num, q), _iroot(den, q)
            if rn is not None and rd is not None:
                return SymReal(c=Fraction(rn, rd))

    def defs(v):
        e = v.n
        for _ in range(q - 1):
            e = e * v.n
        return [v.n >= 0, e * x.d == x.n]

    return _atom(("root", q, x.fp), f"root{q}", defs, x)


def sqrt(x):
    if not isinstance(x, SymReal):
        import math

        return math.sqrt(x)
    return root(x, 2)


def _iroot(n, q):
    if n < 0:
        return None
    r = round(n ** (1.0 / q)) if n < 1 << 52 else int(n ** (1.0 / q))
    for c in (r - 1, r, r + 1):
        if c >= 0 and c**q == n:
            return c
    return None


def norm2(vals):
    """sqrt(sum v^2): atom keyed on the entries; sharing is justified entry by entry (cheap) instead of on the sum of squares."""
    vals = [SymReal.lift(v) for v in vals]
    if all(v.c is not None for v in vals):
        tot = sum((v.c * v.c for v in vals), Fraction(0))
        r = root(SymReal(c=tot), 2)
        return r
    key = ("norm2",) + tuple(sorted(v.fp for v in vals if not (v.c is not None and v.c == 0)))
    if key in CTX.atoms:
        v, arg0 = CTX.atoms[key]
        a0 = sorted(arg0, key=lambda x: x.fp)
        a1 = sorted([x for x in vals if not (x.c is not None and x.c == 0)], key=lambda x: x.fp)
        for x, y in zip(a0, a1):
            if x is not y:
                CTX.atom_checks.append((x, y))
        return v
    name = CTX.fresh_name("norm")
    CTX.datavars.add(name)
    v = SymReal(z3.Real(name), None, _name_fp(name), vname=None)
    nz = [x for x in vals if not (x.c is not None and x.c == 0)]
    # r >= 0 and r^2 * D = sum_i n_i^2 * (D / d_i^2) with D the product of the squared denominators; kept lazily (only used with the path condition)
    s = SymReal(c=Fraction(0))
    for x in nz:
        s = s + x * x
    CTX.defs.append(z3.And(v.n >= 0, v.n * v.n * s.d == s.n))
    CTX.atoms[key] = (v, nz)
    CTX.nonneg_fps.add(v.fn)
    return v


def powk(base, k):
    """base ** k for a symbolic integer k >= 0 (k given as SymInt or an integer-valued SymReal)."""
    base = SymReal.lift(base)
    kk = k.to_real() if isinstance(k, SymInt) else SymReal.lift(k)
    if kk.c is not None:
        return base ** int(kk.c)
    if base.c is not None and base.c in (0, 1):
        if base.c == 1:
            return base
        raise HarnessError("0 ** symbolic k")

    def defs(v):
        b, kt = base.term(), kk.term()
        return [
            z3.Implies(z3.And(b > 0, b < 1, kt >= 1), z3.And(v.n > 0, v.n < 1)),
            z3.Implies(z3.And(b > 0, b < 1, kt >= 1), v.n <= b),
            z3.Implies(kt == 0, v.n == 1),
            z3.Implies(b > 0, v.n > 0),
        ]

    return _atom(("powk", base.fp, kk.fp), "powk", defs)


def absval(x):
    def defs(v):
        return [v.n >= 0, v.n * v.n * x.d * x.d == x.n * x.n]

    return _atom(("abs", x.fp), "abs", defs, x)


def opaque(tag, args, lo=None):
    """Uninterpreted application tag(args): a fresh variable memoised on the arguments' fingerprints."""
    args = [SymReal.lift(a) for a in args]

    def defs(v):
        return [] if lo is None else [v.n >= lo]

    return _atom((tag,) + tuple(a.fp for a in args), tag, defs)


# ----------------------------------------------------------------------------------------------
# integers
# ----------------------------------------------------------------------------------------------
class SymInt:
    __slots__ = ("e", "vname")

    def __init__(self, e, vname=None):
        self.e = z3.IntVal(e) if isinstance(e, int) else e
        self.vname = vname

    @staticmethod
    def c(o):
        if isinstance(o, SymInt):
            return o.e
        if isinstance(o, bool):
            return z3.IntVal(int(o))
        if isinstance(o, int):
            return z3.IntVal(o)
        return None

    def to_real(s):
        v = z3.simplify(s.e)
        if z3.is_int_value(v):
            return SymReal(c=Fraction(v.as_long()))
        if s.vname is not None:
            return SymReal(z3.ToReal(s.e), None, _name_fp(s.vname))
        # fingerprint of a linear integer expression: evaluate at the variable fingerprints
        return SymReal(z3.ToReal(s.e), None, _int_fp(v))

    def concrete(s):
        v = z3.simplify(s.e)
        return v.as_long() if z3.is_int_value(v) else None

    def _b(s, o, f):
        b = SymInt.c(o)
        return NotImplemented if b is None else _simp_int(f(s.e, b))

    def __add__(s, o):
        return s._b(o, lambda a, b: a + b)

    __radd__ = __add__

    def __sub__(s, o):
        return s._b(o, lambda a, b: a - b)

    def __rsub__(s, o):
        return s._b(o, lambda a, b: b - a)

    def __mul__(s, o):
        if isinstance(o, (SymReal, float)):
            return s.to_real() * o
        return s._b(o, lambda a, b: a * b)

    __rmul__ = __mul__

    def __neg__(s):
        return _simp_int(-s.e)

    def __floordiv__(s, o):
        # Python floor division == z3 integer division for positive divisors
        if isinstance(o, int) and o > 0:
            return _simp_int(s.e / o)
        if isinstance(o, SymInt):
            CTX.assume(o.e > 0) if False else None
            return _simp_int(s.e / o.e)
        return NotImplemented

    def __rfloordiv__(s, o):
        return _simp_int(SymInt.c(o) / s.e)

    def __mod__(s, o):
        if isinstance(o, int) and o > 0:
            return _simp_int(s.e % o)
        if isinstance(o, SymInt):
            return _simp_int(s.e % o.e)
        return NotImplemented

    def __truediv__(s, o):
        return s.to_real() / o

    def __rtruediv__(s, o):
        return o / s.to_real()

    def __pow__(s, k):
        if isinstance(k, int) and k >= 0:
            r = SymInt(1)
            for _ in range(k):
                r = r * s
            return r
        return NotImplemented

    def __rpow__(s, base):
        return powk(base, s)

    def _c(s, o, f, pin=False):
        if isinstance(o, (SymReal, float)):
            return getattr(s.to_real(), f.__name__)(o) if False else NotImplemented
        b = SymInt.c(o)
        if b is None:
            return NotImplemented
        e = z3.simplify(f(s.e, b))
        if z3.is_true(e):
            return True
        if z3.is_false(e):
            return False
        return SymBool(e)

    def __lt__(s, o):
        return s._c(o, lambda a, b: a < b)

    def __le__(s, o):
        return s._c(o, lambda a, b: a <= b)

    def __gt__(s, o):
        return s._c(o, lambda a, b: a > b)

    def __ge__(s, o):
        return s._c(o, lambda a, b: a >= b)

    def __eq__(s, o):
        return s._c(o, lambda a, b: a == b)

    def __ne__(s, o):
        return s._c(o, lambda a, b: a != b)

    __hash__ = None

    def __index__(s):
        v = s.concrete()
        if v is None:
            raise HarnessError("symbolic integer used where a concrete index is needed")
        return v

    __int__ = __index__

    def __repr__(s):
        return f"SymInt({_short(s.e)})"


def _simp_int(e):
    v = z3.simplify(e)
    return v.as_long() if z3.is_int_value(v) else SymInt(v)


def _int_fp(e):
    try:
        vs = _vars(e)
        sub = [(v, z3.IntVal(_name_fp(str(v)) % 1000003)) for v in vs]
        val = z3.simplify(z3.substitute(e, *sub))
        return val.as_long() % P if z3.is_int_value(val) else _name_fp(str(e))
    except Exception:
        return _name_fp(str(e))


def symint(name, control=True):
    if CTX.mode == "concrete":
        v = CTX.values.get(name, 0)
        return int(v[0] // v[1]) if isinstance(v, (list, tuple)) else int(v)
    if name in CTX.pins:
        return int(CTX.pins[name])
    if control:
        CTX.control.add(name)
    else:
        CTX.datavars.add(name)
    return SymInt(z3.Int(name), vname=name)


# ----------------------------------------------------------------------------------------------
# IEEE doubles (only comparisons; C17)
# ----------------------------------------------------------------------------------------------
F64 = z3.Float64()


class SymFP:
    __slots__ = ("e",)

    def __init__(self, e):
        self.e = e

    def _c(s, o, op):
        if isinstance(o, SymFP):
            b = o.e
        elif isinstance(o, (int, float)) and not isinstance(o, bool):
            b = z3.FPVal(float(o), F64)
        else:
            return NotImplemented
        return SymBool(op(s.e, b))

    def __lt__(s, o):
        return s._c(o, z3.fpLT)

    def __le__(s, o):
        return s._c(o, z3.fpLEQ)

    def __gt__(s, o):
        return s._c(o, z3.fpGT)

    def __ge__(s, o):
        return s._c(o, z3.fpGEQ)

    def __eq__(s, o):
        return s._c(o, z3.fpEQ)

    def __ne__(s, o):
        return s._c(o, lambda a, b: z3.Not(z3.fpEQ(a, b)))

    __hash__ = None

    def __repr__(s):
        return f"SymFP({s.e})"

    def __format__(s, spec):
        return repr(s)


def symfp(name):
    if CTX.mode == "concrete":
        return float(CTX.values[name])
    CTX.control.add(name)
    return SymFP(z3.FP(name, F64))


# ----------------------------------------------------------------------------------------------
# strings (C16)
# ----------------------------------------------------------------------------------------------
class SymStr:
    __slots__ = ("e",)

    def __init__(self, e):
        self.e = z3.StringVal(e) if isinstance(e, str) else e

    def __hash__(self):
        return 0  # constant hash: dict lookups fall through to the solver-decided __eq__

    def __eq__(s, o):
        if isinstance(o, SymStr):
            return SymBool(s.e == o.e)
        if isinstance(o, str):
            return SymBool(s.e == z3.StringVal(o))
        return False

    def __ne__(s, o):
        r = s.__eq__(o)
        return (not r) if isinstance(r, bool) else ~r

    def __add__(s, o):
        if isinstance(o, SymStr):
            return SymStr(z3.Concat(s.e, o.e))
        if isinstance(o, str):
            return SymStr(z3.Concat(s.e, z3.StringVal(o)))
        return NotImplemented

    def __radd__(s, o):
        if isinstance(o, str):
            return SymStr(z3.Concat(z3.StringVal(o), s.e))
        return NotImplemented

    def __repr__(s):
        return f"SymStr({_short(s.e)})"

    def __str__(s):
        raise HarnessError("str() of a symbolic string")


def symstr(name, maxlen=4):
    if CTX.mode == "concrete":
        return str(CTX.values[name])
    CTX.control.add(name)
    v = z3.String(name)
    CTX.assume(z3.Length(v) <= maxlen)
    return SymStr(v)


# ----------------------------------------------------------------------------------------------
# obligations
# ----------------------------------------------------------------------------------------------
def diff_num(a, b):
    """Numerator of a-b over the least common denominator; zero iff a == b where denominators are non-zero."""
    if not a.df and not b.df:
        return a.n - b.n
    t = SymReal._lcm(a.df, b.df)
    an, _ = SymReal._scale(a, t)
    bn, _ = SymReal._scale(b, t)
    return an - bn


def _guarded_check(s, timeout_ms):
    """Plain s.check().  (A watchdog thread calling ctx.interrupt() was tried against z3 calls that overrun their `timeout` inside non-linear
    preprocessing: the interrupt is ignored there as well, and using the context from a second thread made z3 abort with internal assertion
    violations.  The sat side of the optimizer-level harnesses runs in a forked child with a hard wall-clock limit instead, see _forked_sat_side.)"""
    return s.check()


def _check(constraints, timeout_ms, aux=False):
    s = z3.Solver()
    s.set("timeout", int(timeout_ms))
    for c in constraints:
        s.add(c)
    t = time.time()
    r = _guarded_check(s, timeout_ms)
    if str(r) == "unknown" and not aux and CTX.opts.get("cvc5_fallback") and os.environ.get("VERIF_CVC5_FALLBACK", "1") != "0":
        # second back end before giving up (opt-in per check: linear integer queries only -- cvc5 does not honour its time limit inside non-linear
        # real preprocessing): only a refutation (unsat) is taken from it, a sat answer stays inconclusive (no model transfer)
        if _cvc5_verdict(s, int(timeout_ms)) == "unsat":
            r = "unsat"
            CTX.stats["decided_by_cvc5"] = CTX.stats.get("decided_by_cvc5", 0) + 1
    dt = time.time() - t
    CTX.stats["solver_s"] += dt
    if not aux and dt > CTX.stats.get("slowest_query_s", 0.0):
        CTX.stats["slowest_query_s"] = round(dt, 2)
    if aux:
        CTX.stats["aux_queries"] = CTX.stats.get("aux_queries", 0) + 1
    else:
        CTX.stats["queries"] += 1
        CTX.stats[str(r)] += 1
        global _XCOUNT
        _XCOUNT += 1
        if XCHECK_EVERY and str(r) in ("sat", "unsat") and _XCOUNT % XCHECK_EVERY == 0:
            _crosscheck(s, str(r))
    return str(r), s


XCHECK_EVERY = int(os.environ.get("VERIF_CROSSCHECK_EVERY", "0") or 0)
_XCOUNT = 0  # per worker process: real solver calls so far


def _cvc5_verdict(solver, tlimit_ms):
    try:
        import cvc5

        slv = cvc5.Solver()
        slv.setOption("tlimit-per", str(int(tlimit_ms)))
        slv.setLogic("ALL")
        p = cvc5.InputParser(slv)
        p.setStringInput(cvc5.InputLanguage.SMT_LIB_2_6, solver.to_smt2(), "q")
        sm = p.getSymbolManager()
        res = None
        while True:
            c = p.nextCommand()
            if c.isNull():
                break
            out = c.invoke(slv, sm)
            if c.getCommandName() == "check-sat":
                res = str(out).strip()
        return res
    except Exception:
        return None


def _crosscheck(solver, verdict):
    """Second opinion from cvc5 on the same SMT-LIB text (a sample of the decided queries); a contradiction is a harness error."""
    try:
        import cvc5
    except Exception:
        return
    t = time.time()
    try:
        slv = cvc5.Solver()
        slv.setOption("tlimit-per", "10000")
        slv.setLogic("ALL")
        p = cvc5.InputParser(slv)
        p.setStringInput(cvc5.InputLanguage.SMT_LIB_2_6, solver.to_smt2(), "q")
        sm = p.getSymbolManager()
        res = None
        while True:
            c = p.nextCommand()
            if c.isNull():
                break
            out = c.invoke(slv, sm)
            if c.getCommandName() == "check-sat":
                res = str(out).strip()
    except Exception as e:
        CTX.stats["xcheck_error"] = CTX.stats.get("xcheck_error", 0) + 1
        return
    CTX.stats["xcheck_s"] = CTX.stats.get("xcheck_s", 0.0) + time.time() - t
    if res == verdict:
        CTX.stats["xcheck_agree"] = CTX.stats.get("xcheck_agree", 0) + 1
    elif res in ("sat", "unsat"):
        CTX.stats["xcheck_disagree"] = CTX.stats.get("xcheck_disagree", 0) + 1
        raise HarnessError(f"z3 says {verdict}, cvc5 says {res} on the same query")
    else:
        CTX.stats["xcheck_cvc5_unknown"] = CTX.stats.get("xcheck_cvc5_unknown", 0) + 1


def model_values(solver):
    m = solver.model()
    out = {}
    for name in sorted(CTX.realnames):
        if name in out:
            continue
        try:
            v = m.eval(z3.Real(name), model_completion=True) if not any(d.name() == name for d in m.decls()) else None
            if v is not None and z3.is_rational_value(v):
                out[name] = [v.numerator_as_long(), v.denominator_as_long()]
        except Exception:
            pass
    for d in m.decls():
        v = m[d]
        try:
            if z3.is_int_value(v):
                out[d.name()] = v.as_long()
            elif z3.is_rational_value(v):
                out[d.name()] = [v.numerator_as_long(), v.denominator_as_long()]
            elif z3.is_algebraic_value(v):
                a = v.approx(30)
                out[d.name()] = [a.numerator_as_long(), a.denominator_as_long()]
            elif z3.is_true(v) or z3.is_false(v):
                out[d.name()] = bool(z3.is_true(v))
            elif z3.is_string_value(v):
                out[d.name()] = v.as_string()
            elif z3.is_fp_value(v) if hasattr(z3, "is_fp_value") else False:
                out[d.name()] = _fpval(v)
            elif isinstance(v, z3.FPNumRef):
                out[d.name()] = _fpval(v)
        except Exception:
            out[d.name()] = str(v)
    return out


def _fpval(v):
    """Python repr of a z3 Float64 numeral (via its IEEE bit pattern)."""
    import struct

    bv = z3.simplify(z3.fpToIEEEBV(v))
    if z3.is_bv_value(bv):
        return repr(struct.unpack(">d", bv.as_long().to_bytes(8, "big"))[0])
    if v.isNaN():
        return "nan"
    return str(v)


def _concrete_fail(label, info, detail=None):
    CTX.concrete_failures.append(dict(label=label, detail=detail))


def _linearize(exprs):
    """Replace every nonlinear monomial by a fresh variable (sound for refutation: unsat of the abstraction implies unsat)."""
    cache, monos = {}, {}

    def walk(e):
        i = e.get_id()
        if i in cache:
            return cache[i]
        if z3.is_app(e) and e.decl().kind() == z3.Z3_OP_MUL:
            kids = [walk(c) for c in e.children()]
            nums = [c for c in kids if z3.is_rational_value(c) or z3.is_int_value(c)]
            rest = [c for c in kids if not (z3.is_rational_value(c) or z3.is_int_value(c))]
            if len(rest) >= 2:
                key = "*".join(sorted(str(c) for c in rest))
                if key not in monos:
                    monos[key] = z3.Real(f"mono!{len(monos)}")
                r = monos[key]
                for c in nums:
                    r = c * r
            else:
                r = kids[0]
                for c in kids[1:]:
                    r = r * c
        elif z3.is_app(e) and e.num_args() > 0:
            r = e.decl()(*[walk(c) for c in e.children()])
        else:
            r = e
        cache[i] = r
        return r

    return [walk(e) for e in exprs]


def _require_feasible():
    """A concretely false claim only counts on a feasible path (data forks are not checked for feasibility when taken)."""
    if CTX.pc_data == 0 and not CTX.assumptions:
        return
    r, _ = _check(CTX.pc, CTX.opts.get("reach_timeout_ms", 4000), aux=True)
    if r == "unsat":
        raise PathEnd("infeasible path (contradictory data conditions)")


def prove(label, claim, info=None, context=None):
    """Obligation `claim` (a z3 Bool or SymBool) must hold on the current path: discharge its negation.
    `context`: optional subset of the path condition that suffices (sound: fewer hypotheses)."""
    if CTX.mode == "concrete":
        CTX.stats["obligations"] += 1
        if not bool(claim):
            _concrete_fail(label, info)
        return bool(claim)
    if isinstance(claim, bool):
        CTX.stats["obligations"] += 1
        if claim:
            CTX.stats["queries"] += 1
            CTX.stats["unsat"] += 1
            return True
        _require_feasible()
        raise PathViolation(_viol(label, None, info, concrete=True))
    e = claim.e if isinstance(claim, SymBool) else claim
    CTX.stats["obligations"] += 1
    tmo = CTX.opts.get("query_timeout_ms", 30000)
    neg = z3.simplify(z3.Not(e))
    if z3.is_false(neg):
        CTX.stats["queries"] += 1
        CTX.stats["unsat"] += 1
        CTX.stats["stage1"] += 1
        return True
    if context is not None:
        # normal forms (sum of monomials) make equal polynomials syntactically equal, so the query becomes linear
        nf = [z3.simplify(neg, som=True, som_blowup=100000)] + [z3.simplify(c, som=True, som_blowup=100000) for c in context]
        r, s = _check(_linearize(nf), tmo, aux=True)
        if r != "unsat":
            r, s = _check(nf, tmo)
        if r == "unsat":
            CTX.stats["queries"] += 1
            CTX.stats["unsat"] += 1
            CTX.stats["stage3"] += 1
            return True
    r, s = _check([neg] + CTX.pc + CTX.defs, tmo)
    if r == "unsat":
        CTX.stats["stage3"] += 1
        return True
    if r == "sat":
        raise PathViolation(_viol(label, s, info))
    raise PathViolation(_viol(label, None, info, unknown=True))


def prove_batch(items, info=None):
    """items: [(label, claim)] -- all claims must hold on this path; one query for the disjunction of the negations."""
    exprs = []
    for label, claim in items:
        CTX.stats["obligations"] += 1
        if isinstance(claim, bool):
            if not claim:
                _require_feasible()
                raise PathViolation(_viol(label, None, info, concrete=True))
            continue
        e = claim.e if isinstance(claim, SymBool) else claim
        e = z3.simplify(e)
        if z3.is_true(e):
            continue
        exprs.append((label, e))
    if not exprs:
        CTX.stats["queries"] += 1
        CTX.stats["unsat"] += 1
        CTX.stats["stage1"] += 1
        return True
    tmo = CTX.opts.get("query_timeout_ms", 30000)
    r, s = _check([z3.Or([z3.Not(e) for _, e in exprs])] + CTX.pc + CTX.defs, tmo)
    if r == "unsat":
        CTX.stats["stage3"] += 1
        return True
    if r == "sat":
        m = s.model()
        lab = next((l for l, e in exprs if z3.is_false(m.eval(e, model_completion=True))), exprs[0][0])
        raise PathViolation(_viol(lab, s, info))
    raise PathViolation(_viol(exprs[0][0] + " (batch)", None, info, unknown=True))


def prove_equal(label, a, b, info=None):
    """a == b for SymReals (or numbers): staged discharge, DESIGN 1.1."""
    if CTX.mode == "concrete":
        CTX.stats["obligations"] += 1
        fa, fb = float(a), float(b)
        tol = CTX.opts.get("concrete_tol", 1e-6)
        ok = (fa == fb) or abs(fa - fb) <= tol * (1.0 + abs(fa) + abs(fb))
        if not ok or fa != fa or fb != fb:
            _concrete_fail(label, info, dict(impl=fa, spec=fb))
            return False
        return True
    if a is b:
        CTX.stats["obligations"] += 1
        CTX.stats["queries"] += 1
        CTX.stats["unsat"] += 1
        CTX.stats["stage1"] += 1
        return True
    a, b = SymReal.lift(a), SymReal.lift(b)
    CTX.stats["obligations"] += 1
    tmo = CTX.opts.get("query_timeout_ms", 30000)
    if a.c is None and b.c is None and a.fn == b.fn and a.df.keys() == b.df.keys() and a.n.eq(b.n):
        CTX.stats["queries"] += 1
        CTX.stats["unsat"] += 1
        CTX.stats["stage1"] += 1
        return True
    if a.c is not None and b.c is not None:
        CTX.stats["queries"] += 1
        if a.c == b.c:
            CTX.stats["unsat"] += 1
            CTX.stats["stage1"] += 1
            return True
        CTX.stats["sat"] += 1
        r, s = _check(CTX.pc + CTX.defs, tmo)
        raise PathViolation(_viol(label, s if r == "sat" else None, info, unknown=(r == "unknown"), concrete=(r != "unknown")))
    d = diff_num(a, b)
    same_fp = a.fp == b.fp
    if same_fp:
        ds = z3.simplify(d, som=True, som_blowup=SOM_BLOWUP)
        if z3.is_rational_value(ds) and ds.numerator_as_long() == 0:
            CTX.stats["queries"] += 1
            CTX.stats["unsat"] += 1
            CTX.stats["stage1"] += 1
            return True
        r, _ = _check([ds != 0], min(tmo, 10000))
        if r == "unsat":
            CTX.stats["stage2"] += 1
            return True
    else:
        ds = d
    # need the path condition / atom definitions (or the terms really differ)
    nz = [z3.simplify(x) for x in _den_nonzero(a, b)]
    if not same_fp and CTX.opts.get("fork_sat_side", False) and hasattr(os, "fork"):
        # (opt-in: the optimizer-level harnesses, where no obligation needs the path condition on the unchanged tree -- evidence: discharged_by.with_path_condition = 0)
        # The fingerprints predict a real difference.  Everything on this side (witness search, the full query, the robust-model query) runs in a forked
        # child under a hard wall-clock limit: z3 honours neither its `timeout` nor an interrupt inside some non-linear preprocessing (one such query ran
        # for 20 minutes).  unsat comes back as a verdict, sat as a model, anything else / a killed child as unknown (-> generic-value replay).
        verdict, model, robust = _forked_sat_side(label, ds, nz, a, b, tmo)
        if verdict == "unsat":
            CTX.stats["queries"] += 1
            CTX.stats["unsat"] += 1
            CTX.stats["stage3"] += 1
            return True
        if verdict == "sat":
            CTX.stats["queries"] += 1
            CTX.stats["sat"] += 1
            rec = _viol(label, None, info, unknown=True)
            rec["verdict"] = "sat"
            rec["model"] = model
            rec["model_is_robust"] = robust
            raise PathViolation(rec)
        CTX.stats["queries"] += 1
        CTX.stats["unknown"] += 1
        raise PathViolation(_viol(label, None, info, unknown=True))
    if not same_fp:
        w = _search_witness(ds, nz, tries=6)
        if w is not None:
            CTX.stats["sat"] += 0
            raise PathViolation(_viol(label, w, info, a=a, b=b))
    r, s = _check([ds != 0] + nz + CTX.pc + CTX.defs, tmo)
    if r == "unsat":
        CTX.stats["stage3"] += 1
        return True
    if r == "sat":
        raise PathViolation(_viol(label, s, info, a=a, b=b))
    if not same_fp:
        w = _search_witness(ds, nz, tries=4)
        if w is not None:
            raise PathViolation(_viol(label, w, info, a=a, b=b))
    raise PathViolation(_viol(label, None, info, unknown=True))


def _forked_sat_side(label, ds, nz, a, b, tmo):
    import json as _json
    import select
    import signal

    rfd, wfd = os.pipe()
    t0 = time.time()
    pid = os.fork()
    if pid == 0:  # child
        try:
            os.close(rfd)
            out = dict(verdict="unknown")
            w = _search_witness(ds, nz, tries=6)
            s_ = w
            if w is None:
                r, s2 = _check([ds != 0] + nz + CTX.pc + CTX.defs, tmo)
                if r == "unsat":
                    out = dict(verdict="unsat")
                elif r == "sat":
                    s_ = s2
                else:
                    s_ = _search_witness(ds, nz, tries=4)
            if s_ is not None:
                nice = None
                try:
                    nice = _nicer_model(s_, a, b)
                except Exception:
                    nice = None
                out = dict(verdict="sat", model=model_values(nice if nice is not None else s_), robust=nice is not None)
            os.write(wfd, _json.dumps(out, default=str).encode())
        except BaseException as e:  # noqa: BLE001
            try:
                os.write(wfd, _json.dumps(dict(verdict="unknown", error=repr(e)[:200])).encode())
            except Exception:
                pass
        finally:
            os._exit(0)
    os.close(wfd)
    limit = 10 * 3.0 + tmo / 1000.0 + 8.0 + 10.0
    buf = b""
    deadline = t0 + limit
    while True:
        left = deadline - time.time()
        if left <= 0:
            break
        rl, _, _ = select.select([rfd], [], [], min(left, 1.0))
        if rl:
            chunk = os.read(rfd, 1 << 20)
            if not chunk:
                break
            buf += chunk
    os.close(rfd)
    try:
        os.kill(pid, signal.SIGKILL)
    except OSError:
        pass
    try:
        os.waitpid(pid, 0)
    except OSError:
        pass
    CTX.stats["solver_s"] += time.time() - t0
    CTX.stats["forked_sat_side"] = CTX.stats.get("forked_sat_side", 0) + 1
    try:
        out = _json.loads(buf.decode()) if buf else dict(verdict="unknown")
    except Exception:
        out = dict(verdict="unknown")
    if not buf:
        CTX.stats["sat_side_killed"] = CTX.stats.get("sat_side_killed", 0) + 1
    return out.get("verdict", "unknown"), out.get("model"), bool(out.get("robust"))


def _den_nonzero(*xs):
    out, seen = [], set()
    for x in xs:
        for f, (ex, _) in x.df.items():
            if f not in seen:
                seen.add(f)
                out.append(ex != 0)
    return out


def _search_witness(dnz, nz, tries=40):
    """Look for a model by fixing the free (non-atom) real variables at small rationals; z3 then only solves the atoms."""
    rng = random.Random(SEED + 17)
    cons = [dnz != 0] + nz + CTX.pc + CTX.defs
    free = {}
    for c in cons:
        for v in _vars(c):
            free[str(v)] = v
    base = [v for n, v in sorted(free.items()) if "!" not in n and v.sort() == z3.RealSort()]
    ctrl = [v for v in base if str(v) in CTX.control]
    data = [v for v in base if str(v) not in CTX.control]
    for t in range(tries):
        fix = []
        for v in ctrl:
            fix.append(v == z3.RealVal(f"{rng.randint(0, 7)}/8") if t % 3 else v == z3.RealVal(f"{rng.randint(1, 16)}/8"))
        for v in data:
            fix.append(v == z3.RealVal(f"{rng.randint(-8, 8)}/{rng.choice([1, 2, 4])}"))
        if t % 2 == 1:
            fix = fix[len(ctrl):]  # let the solver choose the hyperparameters
        r, s = _check(cons + fix, 2500, aux=True)
        if r == "sat":
            return s
    return None


def _viol(label, solver, info, unknown=False, concrete=False, a=None, b=None):
    rec = dict(label=label, info=info, verdict="unknown" if unknown else "sat",
               decisions=[(k, v, t) for k, v, t in CTX.decisions][-40:], pins={k: (v if isinstance(v, str) else [frac(v).numerator, frac(v).denominator]) for k, v in CTX.pins.items()},
               calllog=list(CTX.calllog), events=list(CTX.events)[-30:])
    if solver is not None:
        try:
            nice = _nicer_model(solver, a, b)
            rec["model"] = model_values(nice if nice is not None else solver)
            rec["model_is_robust"] = nice is not None
        except Exception as e:  # pragma: no cover
            rec["model_error"] = repr(e)
    elif not unknown:
        # a concrete refutation (no solver model needed): any model of the path condition is a witness
        try:
            # any model of the path condition will do for a concrete refutation (atom definitions make model search slow)
            r, s = _check(CTX.pc, 3000, aux=True)
            if r == "sat":
                rec["model"] = model_values(s)
        except Exception:
            pass
    return rec


def _nicer_model(solver, a, b):
    """Ask for a witness that survives float replay: values on a moderate scale and a visible gap |a-b| >= 1/32."""
    cons = list(solver.assertions())
    extra = []
    for name in sorted(CTX.realnames):
        if "!" in name:
            continue
        v = z3.Real(name)
        extra.append(z3.And(v >= -8, v <= 8))
    for name, lo in (("lr", "1/8"), ("eps", "1/16"), ("geps", "1/16")):
        if name in CTX.control:
            extra.append(z3.Real(name) >= z3.RealVal(lo))
    for name in ("b1", "b2", "b3", "gb2", "mom", "damp"):
        if name in CTX.control:
            extra.append(z3.Or(z3.Real(name) <= z3.RealVal("7/8"), z3.Real(name) == 1))
    if a is not None and b is not None:
        d = diff_num(a, b)  # a - b = d / L with L the least common denominator
        den = z3.RealVal(1)
        for _, (ex, m) in SymReal._lcm(a.df, b.df).items():
            for _ in range(m):
                den = den * ex
        extra.append(d * d * 1024 >= den * den)  # |a - b| >= 1/32
    s = z3.Solver()
    s.set("timeout", 8000)
    for c in cons + extra:
        s.add(c)
    t = time.time()
    r = _guarded_check(s, 8000)
    CTX.stats["solver_s"] += time.time() - t
    return s if r == z3.sat else None


def prove_all_equal(label, pairs, info=None):
    """pairs: iterable of (name, a, b)."""
    for nm, a, b in pairs:
        prove_equal(f"{label}:{nm}", a, b, info)


def check_atom_sharing():
    """Atoms were shared on equal fingerprints: prove the arguments equal (soundness of the sharing)."""
    todo, CTX.atom_checks = CTX.atom_checks, []
    for a0, a1 in todo:
        if a0 is a1:
            continue
        try:
            prove_equal("atom-argument-sharing", a0, a1)
        except PathViolation as v:
            raise HarnessError(f"fingerprint collision in atom sharing: {v.record.get('label')}")


def reachable():
    """Vacuity guard: the assumptions and path condition of this path must be satisfiable."""
    r, _ = _check(CTX.pc + CTX.defs, CTX.opts.get("reach_timeout_ms", 5000))
    return r


# ----------------------------------------------------------------------------------------------
# exploration
# ----------------------------------------------------------------------------------------------
def run_path(fn, pins, prefix, opts):
    """Execute fn once under the decision prefix. Returns a dict describing the path."""
    CTX.reset(pins, prefix, opts)
    rec = dict(pins=dict(pins), status="ok")
    try:
        rec["result"] = fn()
        check_atom_sharing()
    except Restart as r:
        rec["status"] = "restart"
        rec["pin"] = r.pin
    except PathEnd as e:
        rec["status"] = "end"
        rec["why"] = str(e)
    except PathViolation as v:
        rec["status"] = "unknown" if v.record.get("verdict") == "unknown" else "violation"
        rec["violation"] = v.record
    except HarnessError as e:
        rec["status"] = "harness_error"
        rec["why"] = repr(e)
    rec["decisions"] = list(CTX.decisions)
    rec["stats"] = dict(CTX.stats)
    rec["cuts"] = list(CTX.cut_notes)
    rec["events"] = list(CTX.events)[-40:]
    rec["wall_s"] = time.time() - CTX.t0
    return rec


def explore(fn, opts=None, pins=None, prefix=None, max_paths=100000, seen_regimes=None):
    """Sequential DFS over decision prefixes and equality regimes. Yields one record per executed path."""
    opts = opts or {}
    regimes = [dict(pins or {})]
    seen = seen_regimes if seen_regimes is not None else set()
    seen.add(frozenset((pins or {}).items()))
    n = 0
    while regimes:
        rp = regimes.pop()
        stack = [list(prefix or [])]
        while stack:
            pre = stack.pop()
            rec = run_path(fn, rp, pre, opts)
            n += 1
            dec = rec["decisions"]
            for i in range(len(pre), len(dec)):
                if dec[i][0] == "fork":
                    stack.append([d[1] for d in dec[:i]] + [not dec[i][1]])
            if rec["status"] == "restart":
                name, val = rec["pin"]
                np_ = dict(rp)
                np_[name] = val
                key = frozenset(np_.items())
                if key not in seen:
                    seen.add(key)
                    regimes.append(np_)
            yield rec
            if n >= max_paths:
                return
