"""C04 -- parameters without a gradient are untouched and never cross-wire state.

Gradient presence is a symbolic boolean per parameter and step: z3 enumerates every presence
pattern sequence within the bound.  After each real step(): (a) for every absent parameter the
parameter and every state tensor reachable from optimizer.state[param] are the same terms and the
same tensor objects as before, (b) a group with no gradient keeps its step counter, (c) present
parameters equal the per-parameter reference run (own state only), (d) every masked per-block
list is the local list compressed by the current selector.  Equal-shaped blocks are used so that
a shifted selector would not raise a shape error.
"""
from __future__ import annotations

from checks import c01
from vlib import optharness as H


def make(cfg):
    return c01.make(cfg)


def jobs_for(tier):
    jobs = []
    n = 0

    def add(**kw):
        nonlocal n
        kw2 = dict(presence="symbolic", frame_checks=True, assume_generic=True)
        kw2.update(kw)
        cfg = c01.base_cfg(tier=tier, **kw2)
        jobs.append(dict(id=f"p{n}", module="checks.c04", factory="make", cfg=cfg))
        n += 1

    # three parameters, two of equal shape, blocked so that a shift by one block is shape compatible
    add(params=[(2, 2), (2, 2), (2,)], mpd=2, merge=False, graft="adam", nesterov=True, bias_corr=True, decoupled=True, pf=1, sps=2, T=2)
    add(params=[(2, 2), (2, 2)], mpd=2, merge=False, graft="rmsprop", nesterov=False, bias_corr=False, decoupled=False, pf=1, sps=2, T=3, rebase=True)
    add(params=[(4,), (4,)], mpd=2, merge=False, graft="sgd", nesterov=True, bias_corr=True, decoupled=True, pf=2, sps=2, T=3, rebase=True)
    add(params=[(2, 2), (2, 2)], mpd=2, merge=False, graft=None, nesterov=False, bias_corr=True, decoupled=True, pf=1, sps=1, T=3, rebase=True)
    add(params=[(2, 2), (2, 2)], mpd=2, merge=False, graft="adagrad", nesterov=False, bias_corr=True, decoupled=False, pf=1, sps=2, T=3, rebase=True, precond="soap_eigh")
    # two groups: a whole group may be absent
    add(params=[(2, 2), (2, 2), (2,)], groups=[[0], [1, 2]], mpd=2, merge=False, graft="adam", nesterov=False, bias_corr=True, decoupled=True, pf=1, sps=2, T=2)
    # ... with their own hyperparameters: a group stepped with another group's settings (after an all-absent group) must show
    add(params=[(2, 2), (2, 2)], groups=[[0], [1]], group_overrides=[{}, dict(lr="lr_g1", betas=["b1_g1", "b2_g1"], weight_decay="wd_g1", momentum="mom_g1")], mpd=2, merge=False,
        graft="sgd", nesterov=False, bias_corr=True, decoupled=True, pf=1, sps=2, T=2)
    if tier == "thorough":
        add(params=[(2, 2), (2, 2), (2, 2)], mpd=2, merge=False, graft="adam", nesterov=True, bias_corr=True, decoupled=False, pf=2, sps=2, T=4, rebase=True)
        add(params=[(4, 2), (2, 2)], mpd=2, merge=False, graft="rmsprop", nesterov=True, bias_corr=True, decoupled=True, pf=1, sps=2, T=4, rebase=True)
        add(params=[(2, 2), (2, 2)], mpd=2, merge=False, graft="sgd", nesterov=False, bias_corr=False, decoupled=False, pf=1, sps=2, T=4, rebase=True, assume_generic=False)
        add(params=[(2, 2), (2, 2)], mpd=2, merge=False, graft=None, nesterov=True, bias_corr=True, decoupled=True, pf=2, sps=3, T=5, rebase=True, precond="soap_qr")
    return jobs


def run(tier, seed, argv):
    from vlib import par
    from vlib.report import Report

    rep = Report("C04", tier, seed)
    jobs = jobs_for(tier)
    # seeded sample of the option product, every sampled configuration with symbolic presence and the frame checks
    jobs += [dict(id=f"r{i}", module="checks.c04", factory="make", cfg=c)
             for i, c in enumerate(c01.random_cfgs(seed, 6 if tier == "quick" else 200, precond=("shampoo", "soap_eigh", "soap_qr"), tier=tier, presence="symbolic", frame_checks=True))]
    if argv:
        jobs = [j for j in jobs if j["id"] in argv]
    rep.bounds = dict(configs=len(jobs), parameters="2-3 (two of equal shape), up to 2 groups", steps="T<=3 re-based (quick) / <=5 (thorough)",
                      presence="one symbolic boolean per parameter and step: all pattern sequences", hyperparameters="symbolic, generic equality regime (no hyperparameter at a special value)")
    rep.assumptions = ["generic equality regime only (special values 0/1/-1 of the hyperparameters are covered by C01)", "real arithmetic; dtypes are tags",
                       "masked-list alignment reads internal attributes (_masked_*/_local_*): a renamed internal is a harness error, not a violation"]
    rep.validate_standin(6 if tier == "quick" else 24)
    rep.absorb("presence", par.run_jobs(jobs, chunk=6), soft=lambda j: j.startswith("r"))
    return rep.finish("checks.c04")


def replay(record):
    return H.replay_record(record, make)
