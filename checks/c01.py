"""C01 -- every step follows the documented Shampoo update rule.

The real DistributedShampoo (constructor + step(), distributor, preconditioner lists) runs on the
symbolic torch stand-in with ALL continuous hyperparameters, parameter and gradient entries
symbolic; `matrix_inverse_root` is a recording stub (fresh symmetric result, arguments compared).
After every step the new parameters, every checkpointable state tensor and the recorded
inverse-root calls must equal the per-block reference model (specs/shampoo_ref.py) -- polynomial
identities discharged by z3 per path, per equality regime of the hyperparameters.
"""
from __future__ import annotations

import itertools

from vlib import symx, optharness as H


def make(cfg):
    T = cfg.get("T", 2)
    tier = cfg.get("tier", "quick")

    def fn():
        run = H.OptRun(cfg)
        for k in range(1, T + 1):
            grads = []
            for i, s in enumerate(cfg["params"]):
                present = True
                if cfg.get("presence") == "symbolic":
                    present = bool(symx.symbool(f"present_p{i}_s{k}"))
                grads.append(H.arr_var(f"g{k}p{i}", tuple(s)) if present else None)
            symx.CTX.events.append(f"step {k}: present={[g is not None for g in grads]}")
            if cfg.get("schedule") and k > 1:
                # a scheduler changes lr / weight decay / momentum between steps: symbolic new values
                g0 = run.opt.param_groups[0]
                sched = (("lr", "lr"), ("weight_decay", "wd")) + ((("momentum", "mom"),) if cfg.get("schedule") == "with-momentum" else ())
                for key, hpk in sched:
                    nv = symx.hp(f"{hpk}_s{k}")
                    if H.IS_SYM and not isinstance(nv, float) and nv.c is None:
                        symx.CTX.assume(nv.n >= 0)
                        if hpk == "mom":
                            symx.CTX.assume(nv.n < 1)
                    g0[key] = nv
                    run.eff = dict(run.eff)
                    run.eff[hpk] = nv
            run.set_grads(grads)
            snaps = {}
            if cfg.get("frame_checks"):
                snaps = {i: run.snapshot_param(i) for i, g in enumerate(grads) if g is None}
                k_before = list(run.k)
            e = H.guarded_step(run)
            if e is not None:
                mom0 = run.hp["mom"]
                was_zero = (mom0 == 0.0) if isinstance(mom0, float) else (mom0.c is not None and mom0.c == 0)
                cause = "momentum 0 at construction, set non-zero in param_groups later" if (was_zero and isinstance(e, KeyError) and "momentum" in str(e)) else "other"
                symx.prove(f"step() does not raise ({type(e).__name__}: {str(e)[:80]})", False, run._sig("step-raised", cause=cause))
            run.ref_step(grads)
            if cfg.get("frame_checks"):
                for i, sn in snaps.items():
                    run.prove_unchanged(i, sn)
                for gi, idxs in enumerate(run.groups):
                    if all(grads[i] is None for i in idxs):
                        symx.prove(f"group {gi} without any gradient keeps its step counter", run.k[gi] == k_before[gi], run._sig("step-counter"))
                run.masked_lists_aligned()
            run.compare_state()
            run.compare_params()
            if cfg.get("rebase") and k < T:
                run.rebase()
        return "ok"

    return fn, H.default_opts(tier)


def base_cfg(**kw):
    c = dict(params=[(2, 3)], mpd=2, merge=False, pf=1, sps=2, graft=None, nesterov=False, bias_corr=True, decoupled=True, T=2)
    c.update(kw)
    return c


def jobs_for(tier):
    jobs = []
    n = 0

    def add(**kw):
        nonlocal n
        jobs.append(dict(id=f"c{n}", module="checks.c01", factory="make", cfg=base_cfg(tier=tier, **kw)))
        n += 1

    grafts = [None, "sgd", "adagrad", "rmsprop", "adam"]
    if tier == "quick":
        # pairwise-covering selection over (graft, nesterov, bias correction, decoupled)
        combos = [(None, False, True, True), (None, True, False, False), ("sgd", True, True, False), ("sgd", False, False, True),
                  ("adagrad", True, False, True), ("adagrad", False, True, False), ("rmsprop", False, False, False), ("rmsprop", True, True, True),
                  ("adam", True, True, False), ("adam", False, False, True)]
    else:
        combos = list(itertools.product(grafts, (False, True), (False, True), (False, True)))
    for g, nes, bc, dec in combos:
        add(graft=g, nesterov=nes, bias_corr=bc, decoupled=dec)
    # schedules: refresh at start step, hold in between, refresh at later multiples (re-based so that terms stay small)
    add(graft="adam", nesterov=True, bias_corr=True, decoupled=True, pf=2, sps=2, T=4, rebase=True)
    add(graft=None, nesterov=False, bias_corr=False, decoupled=False, pf=2, sps=3, T=4, rebase=True)
    # inductive step: arbitrary re-based state AND arbitrary step number k (symbolic integer), one real step() from there
    add(graft="adam", nesterov=True, bias_corr=True, decoupled=True, pf=3, sps=4, T=3, rebase=True, symbolic_step=True)
    add(graft=None, nesterov=False, bias_corr=True, decoupled=False, pf=2, sps=2, T=2, rebase=True, symbolic_step=True, fixed=dict(mom=0))
    # merged dims, order-3 block, inverse-root override, exponent multiplier, ignored dims
    add(params=[(2, 1, 2)], mpd=4, merge=True, graft="sgd", bias_corr=True)
    add(params=[(2, 2, 2)], mpd=2, merge=False, graft=None, pf=1, sps=1, T=1, fixed=dict(wd=0, mom=0))
    add(params=[(2, 3)], inv_root_override=3, graft=None, pf=1, sps=1, T=2, fixed=dict(mom=0))
    add(params=[(2, 3)], inv_root_override=[1, 2, 5], graft=None, pf=1, sps=1, T=1, fixed=dict(mom=0, wd=0))
    add(params=[(2, 3)], exponent_multiplier=2.0, graft=None, pf=1, sps=1, T=1, fixed=dict(mom=0, wd=0))
    add(params=[(2, 3)], ignored_dims=[0], graft="adagrad", pf=1, sps=1, T=2, fixed=dict(mom=0))
    add(params=[(3,), ()], mpd=2, graft="adam", pf=1, sps=2, T=2, fixed=dict(wd=0))
    # blocks without any preconditioned dimension (0-d parameter without merging; every dimension ignored): precondition() hands its input back, so
    # in-place work on the search direction must not reach the filtered-gradient state -- all regimes (beta3 == beta1 is the default configuration)
    add(params=[(3,), ()], mpd=2, merge=False, graft=None, bias_corr=False, nesterov=False, decoupled=True, pf=1, sps=1, T=2, fixed=dict(mom=0, wd=0))
    add(params=[(3,)], mpd=4, ignored_dims=[0], graft="sgd", bias_corr=False, nesterov=False, decoupled=False, pf=1, sps=1, T=2, fixed=dict(mom=0))
    # gradient presence and several parameters
    add(params=[(2, 2), (2,)], presence="symbolic", graft="adam", pf=1, sps=2, T=2, fixed=dict(wd=0, mom=0))
    # several parameter groups with their own hyperparameters and step counters (a group leaving beta3 unset inherits the resolved top-level value)
    add(params=[(2, 2), (2,)], groups=[[0], [1]], group_overrides=[{}, dict(lr="lr_g1", betas=["b1_g1", "b2_g1"], weight_decay="wd_g1")], graft="adam", nesterov=True,
        bias_corr=True, decoupled=True, pf=1, sps=2, T=2, presence="symbolic", fixed=dict(mom=0), assume_generic=True)
    add(params=[(2, 2), (3,)], groups=[[1], [0]], group_overrides=[dict(epsilon="eps_g0", momentum="mom_g0", beta3="b3_g0"), {}], graft="sgd", nesterov=False,
        bias_corr=False, decoupled=False, pf=1, sps=1, T=2, fixed=dict(wd=0))
    # scheduler changes lr / weight decay (/ momentum) between steps
    add(schedule=True, graft="sgd", nesterov=True, bias_corr=True, decoupled=True, T=2)
    add(schedule="with-momentum", graft="adagrad", nesterov=True, bias_corr=True, decoupled=False, T=2)
    # weight decay scheduled to zero and back while the set of parameters with gradients changes (equal-shaped blocks: a stale masked list raises no shape error)
    add(params=[(2,), (2,)], mpd=2, schedule=True, presence="symbolic", graft=None, nesterov=False, bias_corr=True, decoupled=True, pf=1, sps=1, T=3, rebase=True,
        fixed=dict(mom=0, b1=0), assume_generic=True)
    add(params=[(2,), (2,)], mpd=2, schedule=True, presence="symbolic", graft="sgd", nesterov=False, bias_corr=False, decoupled=False, pf=1, sps=2, T=3, rebase=True,
        fixed=dict(mom=0, b1=0), assume_generic=True)
    # momentum scheduled to zero and back (constructed non-zero, so the buffers exist) while the set of parameters with gradients changes
    add(params=[(2,), (2,)], mpd=2, schedule="with-momentum", presence="symbolic", graft=None, nesterov=False, bias_corr=True, decoupled=True, pf=1, sps=1, T=3, rebase=True,
        fixed=dict(wd=0, b1=0), assume_generic=True)
    # dtype pairs (tags): casts happen, no mismatch error
    for pd, fd in (("float64", "float32"), ("bfloat16", "float32"), ("float32", "float64")):
        add(pdtype=pd, fdtype=fd, graft="adam", pf=1, sps=1, T=2, fixed=dict(wd=0, mom=0))
    return jobs


LAYOUTS = [dict(params=[(2, 3)], mpd=2, merge=False), dict(params=[(3,), (2, 2)], mpd=4, merge=True), dict(params=[(2, 1, 2)], mpd=2, merge=True),
           dict(params=[(2, 2, 2)], mpd=2, merge=False), dict(params=[(4,), ()], mpd=3, merge=True), dict(params=[(3, 2)], mpd=1, merge=False),
           dict(params=[(2, 2), (2,)], mpd=2, merge=False), dict(params=[(1, 3), (2, 2)], mpd=3, merge=True)]


def random_cfgs(seed, n, precond=("shampoo",), tier="quick", **extra):
    """Seeded sample of the product of categorical options x layouts x schedules (generic equality regime): different corners on
    different VERIF_SEEDs, every sampled configuration still solver-quantified over values and hyperparameters."""
    import random

    rng = random.Random(1000003 * seed + 17)
    out = []
    for _ in range(n):
        lay = dict(rng.choice(LAYOUTS))
        pf = rng.choice([1, 2, 3])
        sps = rng.choice([pf, pf + 1, 2 * pf])
        T = rng.choice([2, 3]) if sps <= 3 else 3
        T = max(T, min(sps, 4))
        cfg = dict(lay)
        cfg.update(graft=rng.choice([None, "sgd", "adagrad", "rmsprop", "adam"]), nesterov=rng.random() < 0.5, bias_corr=rng.random() < 0.5, decoupled=rng.random() < 0.5,
                   pf=pf, sps=sps, T=T, rebase=True, assume_generic=True, precond=rng.choice(list(precond)))
        if rng.random() < 0.3:
            cfg["presence"] = "symbolic" if len(cfg["params"]) > 1 else None
        if rng.random() < 0.25 and cfg["precond"] == "shampoo":
            cfg["inv_root_override"] = rng.choice([1, 2, 3, [2, 1, 3]])
        elif rng.random() < 0.2:
            maxo = max(len(s) for s in cfg["params"])
            cfg["ignored_dims"] = [rng.randrange(max(maxo, 1))]
        if rng.random() < 0.2 and cfg["precond"] == "shampoo":
            cfg["exponent_multiplier"] = rng.choice([0.5, 2.0])
        if rng.random() < 0.3:
            cfg["pdtype"], cfg["fdtype"] = rng.choice([("float64", "float32"), ("bfloat16", "float32"), ("float32", "float64"), ("float64", "float64")])
        if rng.random() < 0.4:
            cfg["fixed"] = rng.choice([dict(mom=0), dict(wd=0), dict(b1=0), dict(mom=0, wd=0)])
            cfg["assume_generic"] = True
        if rng.random() < 0.35:
            # the default beta3 = -1 (filtering with beta1) is NOT in the generic regime: sample it explicitly
            cfg["fixed"] = dict(cfg.get("fixed") or {}, b3=-1)
        if rng.random() < 0.15 and all(len(s_) == 1 for s_ in cfg["params"] if len(s_)):
            cfg["ignored_dims"] = [0]  # every dimension of the 1-d parameters ignored: blocks without Kronecker factors
            cfg.pop("inv_root_override", None)
        cfg.update(extra)
        out.append(base_cfg(tier=tier, **cfg))
    return out


def run(tier, seed, argv):
    from vlib import par
    from vlib.report import Report

    rep = Report("C01", tier, seed)
    jobs = jobs_for(tier)
    # seeded sample of the option product (graft x nesterov x bias correction x decoupled x layout x schedule x dtype pair x overrides x presence)
    jobs += [dict(id=f"r{i}", module="checks.c01", factory="make", cfg=c) for i, c in enumerate(random_cfgs(seed, 8 if tier == "quick" else 400, tier=tier))]
    if argv:
        jobs = [j for j in jobs if j["id"] in argv]
    rep.bounds = dict(configs=len(jobs), steps="T<=2 plain, T<=4 re-based", shapes="<=8 elements per parameter, blocks of side<=2..4",
                      hyperparameters="all ten continuous hyperparameters symbolic over the documented domain, every equality regime reached by the code's own tests")
    rep.assumptions = ["real arithmetic stands in for floating point (rounding is outside the claim); dtypes are tags",
                       "matrix_inverse_root is an environment stub: fresh symmetric matrix, a function of its arguments (C10/C11 cover the routine)",
                       "diagonality test of factor matrices: only the generic (non-diagonal) side is followed in these layouts",
                       "grafting guard constant calibrated from the implementation, required to lie in [0, 1e-12]"]
    res = par.run_jobs(jobs, chunk=4)
    rep.validate_standin(6 if tier == "quick" else 24)
    rep.absorb("reference-comparison", res, soft=lambda j: j.startswith("r"))
    return rep.finish("checks.c01")


def replay(record):
    return H.replay_record(record, make)
