"""C11 -- inverse roots are symmetric positive definite and finite on degenerate input.

Real `_matrix_inverse_root_eigen`, `matrix_inverse_root`, `_matrix_inverse_root_diagonal`,
`matrix_eigenvalue_decomposition` over the eigh stub: eigenvalues are arbitrary reals (zero, negative
included), ascending.  Decided per path (n <= 3): every argument of the fractional power is
>= epsilon > 0 (so the result is finite and each eigenvalue is <= epsilon^(-1/r) by monotonicity); the
output is Q D Q^T with the same Q on both sides (hence symmetric, spectrum D); the float64 retry;
root <= 0 raises; inputs with more than one element that are not square 2-D raise.
"""
from __future__ import annotations

import itertools
from fractions import Fraction

import numpy as np
import z3

from checks import mf
from vlib import symx
from vlib.symx import CTX, SymReal


def make(cfg):
    n, root, enh = cfg["n"], Fraction(cfg["root"]), cfg["enhance"]
    mode = cfg.get("mode", "eigen")
    twin = cfg.get("twin")
    opts = dict(query_timeout_ms=30000, no_pins=True)
    log = mf.install_stubs(opts, fail_first_eigh=cfg.get("fail_first", False))

    def fn():
        import torch
        import matrix_functions as M
        from matrix_functions_types import EigenConfig

        log["eigh"].clear()
        log["qr"].clear()
        info = dict(signature=dict(kind="eigen-inverse-root", mode=mode), cfg=cfg)
        eps = symx.hp("eps")
        CTX.assume(eps.n > 0)
        A = mf.sym_matrix("a", n)
        dt = torch.float32 if not cfg.get("f64") else torch.float64
        At = mf.tens(A, dt)
        conf = EigenConfig(enhance_stability=enh, retry_double_precision=cfg.get("retry", True))
        try:
            if mode == "eigen":
                X, L, Q = M._matrix_inverse_root_eigen(At, root, epsilon=eps, enhance_stability=enh, retry_double_precision=cfg.get("retry", True))
            else:
                X = M.matrix_inverse_root(At, root, root_inv_config=conf, epsilon=eps, is_diagonal=False)
        except RuntimeError as e:
            # only legitimate when the injected eigh failure cannot be retried
            ok = cfg.get("fail_first") and (not cfg.get("retry", True) or cfg.get("f64"))
            symx.prove(f"eigendecomposition failure is retried in double precision ({e})", bool(ok), info)
            return "raised"
        if cfg.get("fail_first"):
            symx.prove("the retry decomposes the same matrix in float64", len(log["eigh"]) == 2 and log["eigh"][1]["dtype"] is torch.float64, info)
            mf.prove_all_equal("retry input", log["eigh"][1]["A"], log["eigh"][0]["A"], info)
        rec = log["eigh"][-1]
        # decomposed matrix: A (or A + eps I with enhance_stability)
        Aexp = A.copy()
        if enh:
            for i in range(n):
                Aexp[i, i] = Aexp[i, i] + eps
        mf.prove_all_equal("the decomposed matrix", rec["A"], Aexp, info)
        Xs, args = mf.spectral_inverse_root(list(rec["L"]), rec["Q"], eps, root, enh)
        if twin == "no-shift":
            args = [a - eps for a in args]
        for a in args:
            symx.prove("every argument of the fractional power is >= epsilon (> 0): finite result, eigenvalues <= epsilon^(-1/r)", a >= eps, info)
        for q, arg in mf.root_atoms():
            symx.prove("no root is taken of a value that can be negative or zero", arg > 0, info)
        mf.prove_all_equal("X = Q diag((lambda - min(lambda_min,0) + eps)^(-1/r)) Q^T", X.a, Xs, info)
        for i in range(n):
            for j in range(i + 1, n):
                symx.prove_equal(f"X symmetric [{i},{j}]", X.a[i, j], X.a[j, i], info)
        return "ok"

    return fn, opts


def make_diag(cfg):
    """The diagonal fast path against the general eigen path on a diagonal PSD input (exact decomposition of a diagonal matrix)."""
    n, root = cfg["n"], Fraction(cfg["root"])
    opts = dict(query_timeout_ms=30000, no_pins=True)
    mf.install_stubs(opts, canonical_diagonal=True)

    def fn():
        import torch
        import matrix_functions as M
        from matrix_functions_types import EigenConfig

        info = dict(signature=dict(kind="diagonal-fast-path"), cfg=cfg)
        eps = symx.hp("eps")
        CTX.assume(eps.n > 0)
        A = np.empty((n, n), dtype=object)
        for i in range(n):
            for j in range(n):
                A[i, j] = symx.var(f"d{i}") if i == j else SymReal.const(0)
            CTX.assume(A[i, i].n >= 0, control=False)  # PSD input (property C10: fast paths equal the general path on PSD matrices)
        Xd = M.matrix_inverse_root(mf.tens(A), root, root_inv_config=EigenConfig(), epsilon=eps, is_diagonal=True)
        Xg = M.matrix_inverse_root(mf.tens(A), root, root_inv_config=EigenConfig(), epsilon=eps, is_diagonal=False)
        mf.prove_all_equal("diagonal fast path == general eigen path", Xd.a, Xg.a, info)
        if n == 1:
            Xs = M.matrix_inverse_root(mf.tens(A).view(1, 1), root, epsilon=eps)
        return "ok"

    return fn, opts


def shape_rejection():
    """Concrete: more than one element and not square 2-D -> ValueError; root <= 0 -> ValueError (both eigen and diagonal)."""
    import torch
    import matrix_functions as M

    probs, n = [], 0
    symx.CTX.mode = "concrete"
    try:
        for order in (1, 2, 3):
            for shape in itertools.product((1, 2, 3), repeat=order):
                if int(np.prod(shape)) <= 1 or (order == 2 and shape[0] == shape[1]):
                    continue
                n += 1
                for isd in (False, True):
                    try:
                        M.matrix_inverse_root(torch.zeros(shape), Fraction(2), epsilon=0.5, is_diagonal=isd)
                        probs.append(f"shape {shape} accepted (is_diagonal={isd})")
                    except ValueError:
                        pass
                    except Exception as e:
                        probs.append(f"shape {shape}: {type(e).__name__} instead of ValueError")
        for r in (Fraction(0), Fraction(-2), Fraction(-1, 2)):
            for isd in (False, True):
                n += 1
                try:
                    M.matrix_inverse_root(torch.eye(2), r, epsilon=0.5, is_diagonal=isd)
                    probs.append(f"root {r} accepted (is_diagonal={isd})")
                except ValueError:
                    pass
                except symx.HarnessError:
                    probs.append(f"root {r} not rejected before the decomposition (is_diagonal={isd})")
                except Exception as e:
                    probs.append(f"root {r}: {type(e).__name__} instead of ValueError")
    finally:
        symx.CTX.mode = "symbolic"
    return n, probs


def jobs_for(tier):
    jobs = []
    k = 0
    ns = (1, 2, 3) if tier == "thorough" else (2, 3)
    roots = ("2", "4", "3/2", "1") if tier == "thorough" else ("2", "4", "3/2")
    for n, root, enh in itertools.product(ns, roots, (False, True)):
        if n == 3 and root not in ("2", "4") and tier == "quick":
            continue
        jobs.append(dict(id=f"e{k}", module="checks.c11", factory="make", cfg=dict(n=n, root=root, enhance=enh, mode="eigen" if (k % 2 or n == 1) else "dispatch")))
        k += 1
    for f64, retry in ((False, True), (True, True), (False, False)):
        jobs.append(dict(id=f"e{k}", module="checks.c11", factory="make", cfg=dict(n=2, root="2", enhance=False, mode="dispatch", fail_first=True, f64=f64, retry=retry)))
        k += 1
    for n, root in itertools.product((1, 2, 3), ("2", "3")):
        jobs.append(dict(id=f"d{k}", module="checks.c11", factory="make_diag", cfg=dict(n=n, root=root)))
        k += 1
    return jobs


def run(tier, seed, argv):
    from vlib import par
    from vlib.report import Report

    rep = Report("C11", tier, seed)
    jobs = jobs_for(tier)
    rep.bounds = dict(n="<=3", roots="2, 4, 3/2 (thorough: 1)", eigenvalues="arbitrary reals, ascending (zero / negative included)", epsilon="symbolic > 0", shapes_for_rejection="order<=3, dims<=3")
    rep.assumptions = ["torch.linalg.eigh is an environment stub: fresh ascending eigenvalues and a fresh Q (LAPACK's contract); orthonormality of Q is not needed for the decided clauses",
                       "finiteness and the eigenvalue bound follow from 'power arguments >= epsilon' by monotonicity; commutation and orthogonal equivariance follow from the proved Q D Q^T form (recorded as consequences, not discharged)",
                       "real arithmetic: float overflow/underflow of the power is outside the claim"]
    rep.absorb("eigen-path", par.run_jobs(jobs, chunk=8))
    tw = par.run_jobs([dict(id="twin0", module="checks.c11", factory="make", cfg=dict(n=2, root="2", enhance=False, mode="eigen", twin="no-shift"))])
    rep.twin_expected = 1
    rep.twin_sat = int(any(x["status"] == "violation" for r in tw.values() for x in r["records"]))
    n, probs = shape_rejection()
    rep.extra["rejection_cases"] = n
    rep.validated_traces = n
    if probs:
        rep.violations.append(dict(label=f"validation: {probs[0]}", info=dict(signature=dict(kind="shape-or-root-validation"), cfg={}), model={}, job="concrete"))
    return rep.finish("checks.c11")


def replay(record):
    """Real torch (float64, real LAPACK): evaluate the failing clause on the witness matrix."""
    import torch
    import matrix_functions as M
    from matrix_functions_types import EigenConfig

    info = record.get("info") or {}
    kind = (info.get("signature") or {}).get("kind")
    if kind == "shape-or-root-validation":
        n, probs = shape_rejection_real()
        return bool(probs), f"{n} cases: {probs[:3] or 'ok'}"
    cfg = info["cfg"]
    m = record.get("model", {})

    def val(k, d=0.0):
        v = m.get(k, d)
        return v[0] / v[1] if isinstance(v, list) else float(v)

    n, root, enh = cfg["n"], Fraction(cfg["root"]), cfg.get("enhance", False)
    eps = max(val("eps", 0.5), 1e-6)
    probs = []
    # build a symmetric matrix with the witness spectrum (eigenvalues from the model, random orthogonal Q)
    lam = sorted(val(f"lam0_{i}", 0.0) for i in range(n)) if kind != "diagonal-fast-path" else [max(val(f"d{i}", 0.0), 0.0) for i in range(n)]
    g = torch.Generator().manual_seed(0)
    Qr, _ = torch.linalg.qr(torch.randn(n, n, dtype=torch.float64, generator=g))
    if kind == "diagonal-fast-path":
        A = torch.diag(torch.tensor(lam, dtype=torch.float64))
        Xd = M.matrix_inverse_root(A, root, root_inv_config=EigenConfig(), epsilon=eps, is_diagonal=True)
        Xg = M.matrix_inverse_root(A, root, root_inv_config=EigenConfig(), epsilon=eps, is_diagonal=False)
        if not torch.allclose(Xd, Xg, rtol=1e-8, atol=1e-10):
            probs.append(f"diagonal path {Xd.tolist()} != general path {Xg.tolist()}")
        return bool(probs), f"diag={lam} eps={eps}: {probs or 'paths agree'}"
    mat = Qr @ torch.diag(torch.tensor(lam, dtype=torch.float64)) @ Qr.T
    if enh:
        # the decomposed matrix is A + eps I: the model's eigenvalues are those of A + eps I
        mat = mat - eps * torch.eye(n, dtype=torch.float64)
    mat = (mat + mat.T) / 2
    X = M.matrix_inverse_root(mat, root, root_inv_config=EigenConfig(enhance_stability=enh), epsilon=eps)
    bound = eps ** (-1.0 / float(root))
    if not torch.isfinite(X).all():
        probs.append("result is not finite")
    else:
        ev = torch.linalg.eigvalsh((X + X.T) / 2)
        if not torch.allclose(X, X.T, rtol=1e-8, atol=1e-10):
            probs.append("result is not symmetric")
        if ev.min() <= 0:
            probs.append(f"result is not positive definite (min eigenvalue {ev.min().item():.3e})")
        if ev.max() > bound * (1 + 1e-6):
            probs.append(f"largest eigenvalue {ev.max().item():.6g} exceeds epsilon^(-1/r) = {bound:.6g}")
        lam_eff = torch.linalg.eigvalsh(mat)
        ref = (lam_eff - min(lam_eff.min().item(), 0.0) + eps) ** (-1.0 / float(root))
        if not torch.allclose(torch.sort(ev).values, torch.sort(ref).values, rtol=1e-6, atol=1e-9):
            probs.append(f"spectrum {ev.tolist()} differs from (lambda - min(lambda_min,0) + eps)^(-1/r) = {ref.tolist()}")
    return bool(probs), f"spectrum={lam} eps={eps} root={root} enhance_stability={enh}: {probs or 'clauses hold'}"


def shape_rejection_real():
    import torch
    import matrix_functions as M

    probs, n = [], 0
    for shape in [(2,), (3,), (1, 2), (2, 3), (2, 2, 2), (1, 1, 2), (3, 1)]:
        n += 1
        for isd in (False, True):
            try:
                M.matrix_inverse_root(torch.zeros(shape), Fraction(2), epsilon=0.5, is_diagonal=isd)
                probs.append(f"shape {shape} accepted (is_diagonal={isd})")
            except ValueError:
                pass
            except Exception as e:
                probs.append(f"shape {shape}: {type(e).__name__}")
    for r in (Fraction(0), Fraction(-2)):
        for isd in (False, True):
            n += 1
            try:
                M.matrix_inverse_root(torch.eye(2), r, epsilon=0.5, is_diagonal=isd)
                probs.append(f"root {r} accepted (is_diagonal={isd})")
            except ValueError:
                pass
            except Exception as e:
                probs.append(f"root {r}: {type(e).__name__}")
    return n, probs
