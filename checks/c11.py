"""C11 -- inverse roots are symmetric positive definite and finite on degenerate input.

Real `_matrix_inverse_root_eigen`, `matrix_inverse_root`, `_matrix_inverse_root_diagonal`,
`matrix_eigenvalue_decomposition` over the eigh stub: eigenvalues are arbitrary reals (zero, negative
included), ascending.  Decided per path (n <= 3): every argument of the fractional power is
>= epsilon > 0 (so the result is finite and each eigenvalue is <= epsilon^(-1/r) by monotonicity); the
output is Q D Q^T with the same Q on both sides (hence symmetric, spectrum D); the float64 retry;
root <= 0 raises; inputs with more than one element that are not square 2-D raise.
"""
from __future__ import annotations

import itertools
from fractions import Fraction

import numpy as np
import z3

from checks import mf
from vlib import symx
from vlib.symx import CTX, SymReal


def make(cfg):
    n, root, enh = cfg["n"], Fraction(cfg["root"]), cfg["enhance"]
    mode = cfg.get("mode", "eigen")
    twin = cfg.get("twin")
    opts = dict(query_timeout_ms=30000, no_pins=True)
    if cfg.get("round_single"):
        # float64 input: a scalar that passes through a default-dtype (float32) tensor on its way into the float64 eigenvalues is rounded
        opts["round_double_inputs"] = True
    log = mf.install_stubs(opts, fail_first_eigh=cfg.get("fail_first", False))

    def fn():
        import torch
        import matrix_functions as M
        from matrix_functions_types import EigenConfig

        log["eigh"].clear()
        log["qr"].clear()
        info = dict(signature=dict(kind="eigen-inverse-root", mode=mode), cfg=cfg)
        eps = symx.hp("eps")
        CTX.assume(eps.n > 0)
        A = mf.sym_matrix("a", n)
        dt = torch.float32 if not cfg.get("f64") else torch.float64
        At = mf.tens(A, dt)
        conf = EigenConfig(enhance_stability=enh, retry_double_precision=cfg.get("retry", True))
        try:
            if mode == "eigen":
                X, L, Q = M._matrix_inverse_root_eigen(At, root, epsilon=eps, enhance_stability=enh, retry_double_precision=cfg.get("retry", True))
            else:
                X = M.matrix_inverse_root(At, root, root_inv_config=conf, epsilon=eps, is_diagonal=False)
        except RuntimeError as e:
            # only legitimate when the injected eigh failure cannot be retried
            ok = cfg.get("fail_first") and (not cfg.get("retry", True) or cfg.get("f64"))
            symx.prove(f"eigendecomposition failure is retried in double precision ({e})", bool(ok), info)
            return "raised"
        if cfg.get("fail_first"):
            symx.prove("the retry decomposes the same matrix in float64", len(log["eigh"]) == 2 and log["eigh"][1]["dtype"] is torch.float64, info)
            mf.prove_all_equal("retry input", log["eigh"][1]["A"], log["eigh"][0]["A"], info)
        rec = log["eigh"][-1]
        # decomposed matrix: A (or A + eps I with enhance_stability)
        Aexp = A.copy()
        if enh:
            for i in range(n):
                Aexp[i, i] = Aexp[i, i] + eps
        mf.prove_all_equal("the decomposed matrix", rec["A"], Aexp, info)
        Xs, args = mf.spectral_inverse_root(list(rec["L"]), rec["Q"], eps, root, enh)
        if twin == "no-shift":
            args = [a - eps for a in args]
        for a in args:
            symx.prove("every argument of the fractional power is >= epsilon (> 0): finite result, eigenvalues <= epsilon^(-1/r)", a >= eps, info)
        for q, arg in mf.root_atoms():
            symx.prove("no root is taken of a value that can be negative or zero", arg > 0, info)
        mf.prove_all_equal("X = Q diag((lambda - min(lambda_min,0) + eps)^(-1/r)) Q^T", X.a, Xs, info)
        for i in range(n):
            for j in range(i + 1, n):
                symx.prove_equal(f"X symmetric [{i},{j}]", X.a[i, j], X.a[j, i], info)
        return "ok"

    return fn, opts


def make_diag(cfg):
    """The diagonal fast path against the general eigen path on a diagonal PSD input (exact decomposition of a diagonal matrix)."""
    n, root = cfg["n"], Fraction(cfg["root"])
    opts = dict(query_timeout_ms=30000, no_pins=True)
    mf.install_stubs(opts, canonical_diagonal=True)

    def fn():
        import torch
        import matrix_functions as M
        from matrix_functions_types import EigenConfig

        info = dict(signature=dict(kind="diagonal-fast-path"), cfg=cfg)
        eps = symx.hp("eps")
        CTX.assume(eps.n > 0)
        A = np.empty((n, n), dtype=object)
        for i in range(n):
            for j in range(n):
                A[i, j] = symx.var(f"d{i}") if i == j else SymReal.const(0)
            CTX.assume(A[i, i].n >= 0, control=False)  # PSD input (property C10: fast paths equal the general path on PSD matrices)
        Xd = M.matrix_inverse_root(mf.tens(A), root, root_inv_config=EigenConfig(), epsilon=eps, is_diagonal=True)
        Xg = M.matrix_inverse_root(mf.tens(A), root, root_inv_config=EigenConfig(), epsilon=eps, is_diagonal=False)
        mf.prove_all_equal("diagonal fast path == general eigen path", Xd.a, Xg.a, info)
        if n == 1:
            Xs = M.matrix_inverse_root(mf.tens(A).view(1, 1), root, epsilon=eps)
        return "ok"

    return fn, opts


def shape_rejection():
    """Concrete: more than one element and not square 2-D -> ValueError; root <= 0 -> ValueError (both eigen and diagonal)."""
    import torch
    import matrix_functions as M

    probs, n = [], 0
    symx.CTX.mode = "concrete"
    try:
        for order in (1, 2, 3):
            for shape in itertools.product((1, 2, 3), repeat=order):
                if int(np.prod(shape)) <= 1 or (order == 2 and shape[0] == shape[1]):
                    continue
                n += 1
                for isd in (False, True):
                    try:
                        M.matrix_inverse_root(torch.zeros(shape), Fraction(2), epsilon=0.5, is_diagonal=isd)
                        probs.append(f"shape {shape} accepted (is_diagonal={isd})")
                    except ValueError:
                        pass
                    except Exception as e:
                        probs.append(f"shape {shape}: {type(e).__name__} instead of ValueError")
        for r in (Fraction(0), Fraction(-2), Fraction(-1, 2)):
            for isd in (False, True):
                n += 1
                try:
                    M.matrix_inverse_root(torch.eye(2), r, epsilon=0.5, is_diagonal=isd)
                    probs.append(f"root {r} accepted (is_diagonal={isd})")
                except ValueError:
                    pass
                except symx.HarnessError:
                    probs.append(f"root {r} not rejected before the decomposition (is_diagonal={isd})")
                except Exception as e:
                    probs.append(f"root {r}: {type(e).__name__} instead of ValueError")
    finally:
        symx.CTX.mode = "symbolic"
    return n, probs


def jobs_for(tier):
    jobs = []
    k = 0
    ns = (1, 2, 3) if tier == "thorough" else (2, 3)
    roots = ("2", "4", "3/2", "1") if tier == "thorough" else ("2", "4", "3/2")
    for n, root, enh in itertools.product(ns, roots, (False, True)):
        if n == 3 and root not in ("2", "4") and tier == "quick":
            continue
        jobs.append(dict(id=f"e{k}", module="checks.c11", factory="make", cfg=dict(n=n, root=root, enhance=enh, mode="eigen" if (k % 2 or n == 1) else "dispatch")))
        k += 1
    if tier == "thorough":
        for root, enh in itertools.product(("2", "4"), (False, True)):
            jobs.append(dict(id=f"e{k}", module="checks.c11", factory="make", cfg=dict(n=4, root=root, enhance=enh, mode="eigen" if k % 2 else "dispatch")))
            k += 1
    # float64 inputs with precision tracking of scalars that go through float32 tensors
    for root, enh in (("2", False), ("4", True)):
        jobs.append(dict(id=f"e{k}", module="checks.c11", factory="make", cfg=dict(n=2, root=root, enhance=enh, mode="eigen" if enh else "dispatch", f64=True, round_single=True)))
        k += 1
    for f64, retry in ((False, True), (True, True), (False, False)):
        jobs.append(dict(id=f"e{k}", module="checks.c11", factory="make", cfg=dict(n=2, root="2", enhance=False, mode="dispatch", fail_first=True, f64=f64, retry=retry)))
        k += 1
    for n, root in itertools.product((1, 2, 3), ("2", "3")):
        jobs.append(dict(id=f"d{k}", module="checks.c11", factory="make_diag", cfg=dict(n=n, root=root)))
        k += 1
    return jobs


def run(tier, seed, argv):
    from vlib import par
    from vlib.report import Report

    rep = Report("C11", tier, seed)
    jobs = jobs_for(tier)
    rep.bounds = dict(n="<=3 (thorough: 4 for roots 2 and 4)", roots="2, 4, 3/2 (thorough: 1)", eigenvalues="arbitrary reals, ascending (zero / negative included)", epsilon="symbolic > 0", shapes_for_rejection="order<=3, dims<=3")
    rep.assumptions = ["torch.linalg.eigh is an environment stub: fresh ascending eigenvalues and a fresh Q (LAPACK's contract); orthonormality of Q is not needed for the decided clauses",
                       "finiteness and the eigenvalue bound follow from 'power arguments >= epsilon' by monotonicity; commutation and orthogonal equivariance follow from the proved Q D Q^T form (recorded as consequences, not discharged)",
                       "real arithmetic: float overflow/underflow of the power is outside the claim"]
    rep.absorb("eigen-path", par.run_jobs(jobs, chunk=8))
    tw = par.run_jobs([dict(id="twin0", module="checks.c11", factory="make", cfg=dict(n=2, root="2", enhance=False, mode="eigen", twin="no-shift"))])
    rep.twin_expected = 1
    rep.twin_sat = int(any(x["status"] == "violation" for r in tw.values() for x in r["records"]))
    n, probs = shape_rejection()
    rep.extra["rejection_cases"] = n
    rep.validated_traces = n
    if probs:
        rep.violations.append(dict(label=f"validation: {probs[0]}", info=dict(signature=dict(kind="shape-or-root-validation"), cfg={}), model={}, job="concrete"))
    return rep.finish("checks.c11")


def replay(record):
    """Real torch (float64, real LAPACK): evaluate the failing clause on the witness matrix."""
    import torch
    import matrix_functions as M
    from matrix_functions_types import EigenConfig

    info = record.get("info") or {}
    kind = (info.get("signature") or {}).get("kind")
    if kind == "shape-or-root-validation":
        n, probs = shape_rejection_real()
        return bool(probs), f"{n} cases: {probs[:3] or 'ok'}"
    cfg = info["cfg"]
    m = record.get("model", {})

    def val(k, d=0.0):
        v = m.get(k, d)
        return v[0] / v[1] if isinstance(v, list) else float(v)

    n, root, enh = cfg["n"], Fraction(cfg["root"]), cfg.get("enhance", False)
    eps = max(val("eps", 0.5), 1e-6)
    probs = []
    # build a symmetric matrix with the witness spectrum (eigenvalues from the model, random orthogonal Q)
    lam = sorted(val(f"lam0_{i}", 0.0) for i in range(n)) if kind != "diagonal-fast-path" else [max(val(f"d{i}", 0.0), 0.0) for i in range(n)]
    g = torch.Generator().manual_seed(0)
    Qr, _ = torch.linalg.qr(torch.randn(n, n, dtype=torch.float64, generator=g))
    if kind == "diagonal-fast-path":
        A = torch.diag(torch.tensor(lam, dtype=torch.float64))
        Xd = M.matrix_inverse_root(A, root, root_inv_config=EigenConfig(), epsilon=eps, is_diagonal=True)
        Xg = M.matrix_inverse_root(A, root, root_inv_config=EigenConfig(), epsilon=eps, is_diagonal=False)
        if not torch.allclose(Xd, Xg, rtol=1e-8, atol=1e-10):
            probs.append(f"diagonal path {Xd.tolist()} != general path {Xg.tolist()}")
        return bool(probs), f"diag={lam} eps={eps}: {probs or 'paths agree'}"
    if cfg.get("round_single"):
        # the symbolic run says a rounded scalar reaches the eigenvalues: look for a float64 input (spectrum with a slightly negative eigenvalue,
        # epsilon well above the float64 resolution of the scale and below the float32 one) on which an observable clause fails
        g2 = torch.Generator().manual_seed(5)
        for trial in range(60):
            scale = [1.0, 1e-3, 1e3][trial % 3]
            lam_t = torch.sort(torch.rand(n, dtype=torch.float64, generator=g2) * scale).values
            lam_t[0] = -scale * (1e-4 + 9e-4 * torch.rand(1, dtype=torch.float64, generator=g2).item())
            e_ = scale * [1e-12, 1e-11, 1e-13][trial % 3]
            Qt, _ = torch.linalg.qr(torch.randn(n, n, dtype=torch.float64, generator=g2))
            mat_t = Qt @ torch.diag(lam_t) @ Qt.T
            mat_t = (mat_t + mat_t.T) / 2
            X = M.matrix_inverse_root(mat_t, root, root_inv_config=EigenConfig(enhance_stability=enh), epsilon=e_)
            bound = e_ ** (-1.0 / float(root))
            if not torch.isfinite(X).all():
                probs.append(f"result is not finite for spectrum {lam_t.tolist()} eps={e_}")
            else:
                ev = torch.linalg.eigvalsh((X + X.T) / 2)
                if ev.min() <= 0:
                    probs.append(f"result is not positive definite for spectrum {lam_t.tolist()} eps={e_}")
                elif ev.max() > bound * (1 + 1e-3):
                    probs.append(f"largest eigenvalue {ev.max().item():.6g} exceeds epsilon^(-1/r) = {bound:.6g} for spectrum {lam_t.tolist()} eps={e_}")
            if probs:
                break
        return bool(probs), f"float64 search (root={root}, enhance_stability={enh}): {probs or '60 inputs with a slightly negative eigenvalue: clauses hold'}"
    mat = Qr @ torch.diag(torch.tensor(lam, dtype=torch.float64)) @ Qr.T
    if enh:
        # the decomposed matrix is A + eps I: the model's eigenvalues are those of A + eps I
        mat = mat - eps * torch.eye(n, dtype=torch.float64)
    mat = (mat + mat.T) / 2
    # the witness spectrum first, then the degenerate inputs the property names (zero matrix, rank-deficient, tiny scale, slightly negative eigenvalue)
    e1 = torch.zeros(n, n, dtype=torch.float64)
    e1[0, 0] = 1.0
    neg = Qr @ torch.diag(torch.tensor([-1e-4] + [1.0] * (n - 1), dtype=torch.float64)) @ Qr.T
    cands = [(mat, eps), (torch.zeros(n, n, dtype=torch.float64), eps), (e1, eps), (e1 * 1e-6, 1e-8), ((neg + neg.T) / 2, 1e-3), (mat * 1e-8, max(eps * 1e-8, 1e-12))]
    fail_first = bool(cfg.get("fail_first"))
    real_eigh = torch.linalg.eigh
    for mat_c, eps_c in cands:
        for dt in ((torch.float32,) if fail_first else (torch.float64, torch.float32)):
            calls = [0]

            def flaky(Ax, *a, **k):
                calls[0] += 1
                if Ax.dtype != torch.float64:
                    raise RuntimeError("injected: eigh failed to converge in single precision")
                return real_eigh(Ax, *a, **k)

            if fail_first:
                torch.linalg.eigh = flaky  # the float64 retry path (as the repository's own tests provoke it)
            try:
                X = M.matrix_inverse_root(mat_c.to(dt), root, root_inv_config=EigenConfig(enhance_stability=enh, retry_double_precision=cfg.get("retry", True)), epsilon=eps_c)
            except Exception as e:
                if not (fail_first and not cfg.get("retry", True)):
                    probs.append(f"raised {type(e).__name__}: {e} for input {mat_c.tolist()} eps={eps_c} ({dt})"[:300])
                continue
            finally:
                torch.linalg.eigh = real_eigh
            X = X.to(torch.float64)
            bound = eps_c ** (-1.0 / float(root))
            rt = 1e-3 if dt is torch.float32 else 1e-6
            if not torch.isfinite(X).all():
                probs.append(f"result is not finite for input {mat_c.tolist()} eps={eps_c} ({dt})")
            else:
                ev = torch.linalg.eigvalsh((X + X.T) / 2)
                if not torch.allclose(X, X.T, rtol=rt, atol=rt * bound):
                    probs.append(f"result is not symmetric for input {mat_c.tolist()}")
                if ev.min() <= 0:
                    probs.append(f"result is not positive definite (min eigenvalue {ev.min().item():.3e}) for input {mat_c.tolist()} eps={eps_c} ({dt})")
                if ev.max() > bound * (1 + 10 * rt):
                    probs.append(f"largest eigenvalue {ev.max().item():.6g} exceeds epsilon^(-1/r) = {bound:.6g} for input {mat_c.tolist()} eps={eps_c} ({dt})")
                if dt is torch.float64:
                    lam_eff = torch.linalg.eigvalsh(mat_c + (eps_c if enh else 0.0) * torch.eye(n, dtype=torch.float64))
                    sh = min((lam_eff.min().item() - eps_c) if enh else lam_eff.min().item(), 0.0)
                    ref = (lam_eff - sh + (0.0 if enh else eps_c)) ** (-1.0 / float(root))
                    if not torch.allclose(torch.sort(ev).values, torch.sort(ref).values, rtol=1e-5, atol=1e-9 * bound):
                        probs.append(f"spectrum {ev.tolist()} differs from (lambda - min(lambda_min,0) + eps)^(-1/r) = {ref.tolist()} for input {mat_c.tolist()} eps={eps_c}")
            if probs:
                break
        if probs:
            break
    return bool(probs), f"root={root} enhance_stability={enh}{' (float32 eigh failure injected)' if fail_first else ''}: {probs[:2] or 'clauses hold on the witness and on the degenerate inputs'}"


def shape_rejection_real():
    import torch
    import matrix_functions as M

    probs, n = [], 0
    for shape in [(2,), (3,), (1, 2), (2, 3), (2, 2, 2), (1, 1, 2), (3, 1)]:
        n += 1
        for isd in (False, True):
            try:
                M.matrix_inverse_root(torch.zeros(shape), Fraction(2), epsilon=0.5, is_diagonal=isd)
                probs.append(f"shape {shape} accepted (is_diagonal={isd})")
            except ValueError:
                pass
            except Exception as e:
                probs.append(f"shape {shape}: {type(e).__name__}")
    for r in (Fraction(0), Fraction(-2)):
        for isd in (False, True):
            n += 1
            try:
                M.matrix_inverse_root(torch.eye(2), r, epsilon=0.5, is_diagonal=isd)
                probs.append(f"root {r} accepted (is_diagonal={isd})")
            except ValueError:
                pass
            except Exception as e:
                probs.append(f"root {r}: {type(e).__name__}")
    return n, probs
