"""C13 -- failed root computations are tolerated N times then raised; stored roots stay finite.

The recording stubs of matrix_inverse_root / matrix_eigenvectors get a *symbolic outcome per
call* (success / raise; in a second family: returns a matrix containing NaN or Inf), gradient
presence is symbolic per parameter and step, the tolerance N >= 0 is a symbolic integer.  A
per-block reference counter (consecutive refreshes of that block containing a failure, reset by a
fully successful refresh) predicts on every path whether step() must raise; stored matrices,
parameters and state must equal the reference (failed factor keeps its previous matrix).
Non-finite factor matrices / results must raise PreconditionerValueError with every parameter of
the group unchanged, and stored roots never carry the non-finite marker.
"""
from __future__ import annotations

import numpy as np

from checks import c01
from specs import shampoo_ref as R
from vlib import symx, optharness as H


def make(cfg):
    T = cfg["T"]
    tier = cfg.get("tier", "quick")
    mode = cfg.get("mode", "raise")

    def fn():
        if mode == "overflow":
            symx.CTX.opts["downcast_overflow"] = True
        N = symx.symint("N")
        if H.IS_SYM:
            import z3

            symx.CTX.assume(z3.And(N.e >= 0, N.e <= cfg.get("maxN", 3)))
        c2 = dict(cfg)
        c2["tolerated"] = N
        run = H.OptRun(c2)
        run.info["cfg"] = cfg  # the public, picklable configuration (N is a solver variable)
        info = run._sig("failure-tolerance" if mode == "raise" else "non-finite")

        def fault(kind, c):
            if mode == "raise":
                return "raise" if bool(symx.symbool(f"fail_{c}")) else "ok"
            if mode == "nan":
                return "nan" if bool(symx.symbool(f"bad_{c}")) else "ok"
            if mode == "inf":
                return "inf" if bool(symx.symbool(f"bad_{c}")) else "ok"
            return "ok"

        run.fault_fn = fault
        stub = run.inv_stub if cfg.get("precond", "shampoo") == "shampoo" else run.eig_stub
        degraded = False
        for k in range(1, T + 1):
            grads, nan_grad = [], []
            for i, s in enumerate(cfg["params"]):
                present = True
                if cfg.get("presence") == "symbolic" and k > 1:
                    present = bool(symx.symbool(f"present_p{i}_s{k}"))
                grads.append(H.arr_var(f"g{k}p{i}", tuple(s)) if present else None)
                nan_grad.append(bool(symx.symbool(f"nangrad_p{i}_s{k}")) if (mode == "nangrad" and present) else False)
            symx.CTX.events.append(f"step {k}: present={[g is not None for g in grads]} nan_grad={nan_grad}")
            run.set_grads(grads)
            for p, bad in zip(run.params, nan_grad):
                if bad:
                    if H.IS_SYM:
                        p.grad.nf_nan = True
                    else:
                        p.grad.view(-1)[0] = float("nan")
            before = [H.read(p) for p in run.params]
            c0 = len(stub.calls)
            ev0 = len(symx.CTX.shared.get("overflow_events", [])) if H.IS_SYM else 0
            e = H.guarded_step(run)
            calls = stub.calls[c0:]
            # ---- reference outcome
            k_ref = run.k[0] + 1 if any(g is not None for g in grads) else run.k[0]
            refresh = any(g is not None for g in grads) and R.is_refresh(k_ref, run.rcfg)
            expect = None
            if refresh:
                pos = 0
                for pi, g in enumerate(grads):
                    if g is None:
                        continue
                    for blk in run.ref[pi]["blocks"]:
                        nf = len(blk.pdims)
                        if any(nan_grad):
                            pass
                        outs = [c["outcome"] for c in calls[pos:pos + nf]]
                        if expect is None and mode == "nangrad" and nan_grad[pi] and nf:
                            expect = "nonfinite"
                        if expect is None and any(o in ("nan", "inf") for o in outs):
                            expect = "nonfinite"
                        if expect is None and len(outs) == nf:
                            if any(o == "raise" for o in outs):
                                blk.fail_count += 1
                                if bool(blk.fail_count > N):
                                    expect = "tolerance"
                            elif nf:
                                blk.fail_count = 0
                        pos += nf
                        if expect is not None:
                            break
                    if expect is not None:
                        break
            if mode == "overflow" and expect is None:
                # a root that overflows the storage dtype at this refresh is a non-finite computed root
                if H.IS_SYM:
                    fired = [bool(b) for b in symx.CTX.shared.get("overflow_events", [])[ev0:]]
                else:
                    fired = [bool(v) for k, v in (symx.CTX.values or {}).items() if str(k).startswith("overflow_")] if refresh else []
                if any(fired):
                    expect = "nonfinite"
            from distributed_shampoo.shampoo_types import PreconditionerValueError

            got = None if e is None else ("nonfinite" if isinstance(e, PreconditionerValueError) else ("tolerance" if isinstance(e, ValueError) and "tolerance" in str(e) else f"other:{type(e).__name__}: {str(e)[:80]}"))
            symx.CTX.events.append(f"step {k}: outcomes={[c['outcome'] for c in calls]} expected={expect} got={got}")
            symx.prove(f"step() raises exactly when the reference failure counter exceeds the tolerance / a non-finite value appears (expected {expect}, got {got})",
                       got == expect, info)
            if expect == "nonfinite":
                for pi, (p, b) in enumerate(zip(run.params, before)):
                    now = H.read(p)
                    for idx in (np.ndindex(*b.shape) if b.ndim else [()]):
                        symx.prove_equal(f"no parameter is modified by a step that raises PreconditionerValueError (param {pi}{list(idx)})", now[idx], b[idx], info)
            if expect == "tolerance" and cfg.get("continue_after_raise") and k < T:
                # a training loop that catches the error and keeps stepping: the counter stays above the tolerance, so every later failing refresh
                # must raise again; from here on only the raise / no-raise decisions are compared (a raising step leaves a partially updated state)
                degraded = True
                run.k[0] = k_ref
                continue
            if expect is not None:
                _stored_finite(run, info)
                return f"raised {expect} at step {k}"
            if degraded:
                if any(g is not None for g in grads):
                    run.k[0] = k_ref
                continue
            run.ref_step(grads)
            run.compare_state()
            run.compare_params()
            _stored_finite(run, info)
            if cfg.get("rebase") and k < T:
                run.rebase()
        return "completed"

    return fn, H.default_opts(tier)


def _stored_finite(run, info):
    soap = run.cfg.get("precond", "shampoo") != "shampoo"
    for pi, p in enumerate(run.params):
        for bi, blk in enumerate(run.ref[pi]["blocks"]):
            sh = run.opt.state[p][f"block_{bi}"]["shampoo"]
            mats = sh.factor_matrices_eigenvectors if soap else sh.inv_factor_matrices
            for t in mats:
                if H.IS_SYM:
                    bad = H.torch.isnan(t).any() or H.torch.isinf(t).any()
                    symx.prove("stored inverse roots / eigenbases are finite", not bool(bad), info)
                else:
                    symx.prove("stored inverse roots / eigenbases are finite", bool(H.torch.isfinite(t).all()), info)


def jobs_for(tier):
    jobs = []
    n = 0

    def add(**kw):
        nonlocal n
        cfg = c01.base_cfg(tier=tier, assume_generic=True, graft=None, nesterov=False, bias_corr=True, decoupled=True, **kw)
        jobs.append(dict(id=f"f{n}", module="checks.c13", factory="make", cfg=cfg))
        n += 1

    fixed = dict(wd=0, mom=0, b1=0)
    # one two-factor block and one one-factor block; refresh at every step
    add(params=[(2, 2), (2,)], mpd=2, merge=False, pf=1, sps=1, T=3, rebase=True, presence="symbolic", mode="raise", fixed=fixed, maxN=2)
    add(params=[(2, 2), (2,)], mpd=2, merge=False, pf=1, sps=1, T=2, rebase=True, presence="symbolic", mode="raise", fixed=fixed, precond="soap_eigh", maxN=2)
    add(params=[(2,), (2,)], mpd=2, merge=False, pf=2, sps=2, T=4, rebase=True, presence="symbolic", mode="raise", fixed=fixed, maxN=1)
    # a block without any Kronecker factor (0-d parameter without merging; every dimension ignored) never fails and never counts as a failure
    add(params=[(2,), ()], mpd=2, merge=False, pf=1, sps=1, T=3, rebase=True, mode="raise", fixed=fixed, maxN=1)
    add(params=[(2, 2), (2,)], mpd=2, merge=False, pf=1, sps=1, T=2, rebase=True, mode="raise", fixed=fixed, precond="soap_eigh", ignored_dims=[0, 1], maxN=1)
    # the error is raised at EVERY failing refresh once the tolerance is exceeded (a loop that catches it and keeps stepping)
    add(params=[(2,)], mpd=2, merge=False, pf=1, sps=1, T=4, mode="raise", fixed=fixed, maxN=1, continue_after_raise=True)
    add(params=[(2, 2)], mpd=2, merge=False, pf=1, sps=1, T=3, mode="raise", fixed=fixed, precond="soap_eigh", maxN=0, continue_after_raise=True)
    # a step that raises PreconditionerValueError leaves the parameters alone also when (decoupled) weight decay is on
    add(params=[(2, 2), (2,)], mpd=2, merge=False, pf=1, sps=1, T=2, rebase=True, mode="nangrad", fixed=dict(mom=0, b1=0))
    add(params=[(2, 2), (2,)], mpd=2, merge=False, pf=1, sps=1, T=2, rebase=True, mode="nan", fixed=dict(mom=0, b1=0), precond="soap_eigh")
    # a factor-less block AHEAD of blocks that can fail, with gradient presence changing between refreshes: counters stay with their own blocks
    add(params=[(), (2,), (2,)], mpd=2, merge=False, pf=1, sps=1, T=3, rebase=True, presence="symbolic", mode="raise", fixed=fixed, maxN=1)
    # a 1 x 1 factor is always diagonal: a non-finite gradient must still be caught in it
    add(params=[(1,), (2,)], mpd=2, merge=False, pf=1, sps=1, T=2, rebase=True, presence="symbolic", mode="nangrad", fixed=fixed)
    for md in ("nan", "inf", "nangrad"):
        add(params=[(2, 2), (2,)], mpd=2, merge=False, pf=1, sps=1, T=2, rebase=True, presence="symbolic", mode=md, fixed=fixed)
        add(params=[(2, 2), (2,)], mpd=2, merge=False, pf=1, sps=1, T=2, rebase=True, mode=md, fixed=fixed, precond="soap_qr")
    # mixed dtypes: a finite float32 root may overflow the (lower precision) storage dtype -> must be caught before it is stored
    add(params=[(2, 2), (2,)], mpd=2, merge=False, pf=1, sps=1, T=2, rebase=True, mode="overflow", fixed=fixed, pdtype="float16", fdtype="float32")
    if tier == "thorough":
        # sized by total wall time (each of these is 10^4..10^5 paths): deeper histories with fewer symbolic dimensions each
        add(params=[(2, 2), (2,)], mpd=2, merge=False, pf=1, sps=1, T=3, rebase=True, presence="symbolic", mode="raise", fixed=fixed, precond="soap_eigh", maxN=2)
        add(params=[(2, 2), (2,)], mpd=2, merge=False, pf=1, sps=1, T=3, rebase=True, presence="symbolic", mode="raise", fixed=fixed, precond="soap_qr", maxN=1)
        add(params=[(2,), (2,)], mpd=2, merge=False, pf=1, sps=1, T=4, rebase=True, presence="symbolic", mode="raise", fixed=fixed, maxN=3)
        add(params=[(2,), (2,), (2,)], mpd=2, merge=False, pf=2, sps=2, T=4, rebase=True, presence="symbolic", mode="raise", fixed=fixed, maxN=1)
        add(params=[(2, 2), (2,)], mpd=2, merge=False, pf=1, sps=1, T=4, rebase=True, mode="raise", fixed=fixed, maxN=3)
        add(params=[(2,), (2,)], mpd=2, merge=False, pf=2, sps=2, T=6, rebase=True, presence="symbolic", mode="raise", fixed=fixed, maxN=2)
        for md in ("nan", "inf", "nangrad"):
            add(params=[(2, 2), (2,)], mpd=2, merge=False, pf=1, sps=1, T=3, rebase=True, presence="symbolic", mode=md, fixed=fixed, precond="soap_eigh")
    return jobs


def run(tier, seed, argv):
    from vlib import par
    from vlib.report import Report

    rep = Report("C13", tier, seed)
    jobs = jobs_for(tier)
    if argv:
        jobs = [j for j in jobs if j["id"] in argv]
    rep.bounds = dict(configs=len(jobs), refreshes="<=3 (quick) / <=4, one configuration 3 refreshes over 6 steps (thorough)", tolerance="symbolic integer 0..3", outcomes="symbolic success/failure per factor and refresh; NaN/Inf results; NaN gradients",
                      presence="symbolic per parameter and step (step 1: all present)", lists="Shampoo and SOAP (eigh, QR)")
    rep.assumptions = ["matrix routines replaced by recording stubs with symbolic outcome (the routines themselves: C10-C12)", "non-finite values are tensor-level markers propagated by every operation of the stand-in",
                       "weight decay, momentum and filtering switched off (they do not interact with the failure bookkeeping)"]
    rep.validate_standin(6 if tier == "quick" else 24)
    rep.absorb("fault-sequences", par.run_jobs(jobs, chunk=8))
    return rep.finish("checks.c13")


def replay(record):
    return H.replay_record(record, make)
