"""C17 -- the constructor accepts exactly the documented hyperparameter domain.

The real `DistributedShampoo.__init__` (and the `__post_init__` of the grafting / preconditioner
configs) is executed with one or two hyperparameters symbolic at a time -- floats as z3 Float64
terms (so NaN, +-inf, -0.0 and every boundary are covered), integers as z3 Ints -- the others at a
valid baseline.  On every path: raised ValueError  <=>  the values are outside the documented
domain; on success the -1 sentinels for beta3 / start step were substituted.
"""
from __future__ import annotations

import itertools
import math

from vlib import symx
from vlib.symx import SymBool

FLOATS = ["lr", "beta1", "beta2", "beta3", "epsilon", "momentum", "dampening", "weight_decay", "graft_eps", "graft_beta2"]
INTS = ["max_preconditioner_dim", "precondition_frequency", "start_preconditioning_step", "inv_root_override", "iro_list0", "iro_list1",
        "num_tolerated"]
BASE = dict(lr=0.01, beta1=0.9, beta2=0.99, beta3=-1.0, epsilon=1e-12, momentum=0.5, dampening=0.25, weight_decay=0.01,
            graft_eps=1e-8, graft_beta2=0.999, max_preconditioner_dim=2, precondition_frequency=2, start_preconditioning_step=-1,
            inv_root_override=0, iro_list0=None, iro_list1=None, num_tolerated=3)
# second baseline: boundary-heavy but valid
BASE2 = dict(BASE, lr=0.0, beta1=0.0, beta2=1.0, beta3=0.5, momentum=0.0, dampening=0.0, weight_decay=0.0, graft_beta2=1.0,
             max_preconditioner_dim=1, precondition_frequency=1, start_preconditioning_step=3, inv_root_override=2)


def AND(*xs):
    r = True
    for x in xs:
        if isinstance(x, SymBool) or isinstance(r, SymBool):
            r = (x & r) if isinstance(x, SymBool) else (r & x)
        else:
            r = bool(r) and bool(x)
    return r


def OR(*xs):
    r = False
    for x in xs:
        if isinstance(x, SymBool) or isinstance(r, SymBool):
            r = (x | r) if isinstance(x, SymBool) else (r | x)
        else:
            r = bool(r) or bool(x)
    return r


def NOT(x):
    return ~x if isinstance(x, SymBool) else (not x)


def domain(v, graft, ignored_dims):
    """The documented domain (statement of C17) as a predicate over the values."""
    d = AND(
        v["lr"] >= 0.0,
        v["beta1"] >= 0.0, v["beta1"] < 1.0,
        v["beta2"] > 0.0, v["beta2"] <= 1.0,
        OR(v["beta3"] == -1.0, AND(v["beta3"] >= 0.0, v["beta3"] < 1.0)),
        v["epsilon"] > 0.0,
        v["momentum"] >= 0.0, v["momentum"] < 1.0,
        v["dampening"] >= 0.0, v["dampening"] < 1.0,
        v["weight_decay"] >= 0.0,
        v["max_preconditioner_dim"] >= 1,
        v["precondition_frequency"] >= 1,
        OR(v["start_preconditioning_step"] == -1, v["start_preconditioning_step"] >= v["precondition_frequency"]),
        v["num_tolerated"] >= 0,
    )
    if v["iro_list0"] is not None:
        d = AND(d, v["iro_list0"] >= 0, v["iro_list1"] >= 0)
        if ignored_dims:
            d = False  # a list override is never "the default override"
    else:
        d = AND(d, v["inv_root_override"] >= 0)
        if ignored_dims:
            d = AND(d, v["inv_root_override"] == 0)
    if graft in ("adagrad", "rmsprop", "adam"):
        d = AND(d, v["graft_eps"] > 0.0)
    if graft in ("rmsprop", "adam"):
        d = AND(d, v["graft_beta2"] > 0.0, v["graft_beta2"] <= 1.0)
    return d


FLAG_DEFAULTS = dict(use_nesterov=False, use_bias_correction=True, use_decoupled_weight_decay=True, use_merge_dims=True)


def construct(v, graft, ignored_dims, soap, flags=None):
    """Build the configs and the optimizer from the value dict; returns (raised_exception_or_None, optimizer).  `flags`: the boolean options
    (they are not part of the documented domain: no value of them may turn an in-domain combination into a rejection)."""
    fl = dict(FLAG_DEFAULTS)
    fl.update(flags or {})
    import torch
    from distributed_shampoo.distributed_shampoo import DistributedShampoo
    from distributed_shampoo.shampoo_types import (AdaGradGraftingConfig, AdamGraftingConfig, RMSpropGraftingConfig, SGDGraftingConfig,
                                                   ShampooPreconditionerConfig, EigenvalueCorrectedShampooPreconditionerConfig)

    try:
        if graft is None:
            g = None
        elif graft == "sgd":
            g = SGDGraftingConfig()
        elif graft == "adagrad":
            g = AdaGradGraftingConfig(epsilon=v["graft_eps"])
        elif graft == "rmsprop":
            g = RMSpropGraftingConfig(epsilon=v["graft_eps"], beta2=v["graft_beta2"])
        else:
            g = AdamGraftingConfig(epsilon=v["graft_eps"], beta2=v["graft_beta2"])
        cls = EigenvalueCorrectedShampooPreconditionerConfig if soap else ShampooPreconditionerConfig
        pc = cls(num_tolerated_failed_amortized_computations=v["num_tolerated"], ignored_dims=list(ignored_dims))
        iro = [v["iro_list0"], v["iro_list1"]] if v["iro_list0"] is not None else v["inv_root_override"]
        w = torch.nn.Parameter(torch.zeros((2, 2), dtype=torch.float32))
        opt = DistributedShampoo([w], lr=v["lr"], betas=(v["beta1"], v["beta2"]), beta3=v["beta3"], epsilon=v["epsilon"],
                                 momentum=v["momentum"], dampening=v["dampening"], weight_decay=v["weight_decay"],
                                 max_preconditioner_dim=v["max_preconditioner_dim"], precondition_frequency=v["precondition_frequency"],
                                 start_preconditioning_step=v["start_preconditioning_step"], inv_root_override=iro,
                                 grafting_config=g, preconditioner_config=pc, **fl)
        return None, opt
    except (ValueError, NotImplementedError) as e:
        return e, None


def make(cfg):
    sym = tuple(cfg["sym"])
    base = dict(BASE2 if cfg["base"] == 2 else BASE)
    if cfg.get("iro_list"):
        base["iro_list0"], base["iro_list1"] = 1, 0
    graft, ign, soap = cfg["graft"], tuple(cfg["ignored"]), cfg["soap"]
    twin = cfg.get("twin")

    def fn():
        v = dict(base)
        for n in sym:
            v[n] = symx.symfp(n) if n in FLOATS else symx.symint(n)
        import logging

        prev = logging.root.manager.disable
        if cfg.get("logging_enabled"):
            logging.disable(logging.NOTSET)  # the default for a user: warnings are emitted (the harness normally silences them)
            if not logging.getLogger().handlers:
                logging.getLogger().addHandler(logging.NullHandler())
        try:
            exc, opt = construct(v, graft, ign, soap, cfg.get("flags"))
        finally:
            logging.disable(prev)
        dom = domain(v, graft, ign)
        if twin == "accept-beta1-one" and "beta1" in sym:
            dom = OR(dom, AND(dom_without(v, graft, ign, "beta1"), v["beta1"] == 1.0))
        if twin == "reject-lr-zero" and "lr" in sym:
            dom = AND(dom, NOT(v["lr"] == 0.0))
        info = dict(signature=dict(kind="rejects-inside-domain" if exc is not None else "accepts-outside-domain", sym=list(sym)),
                    cfg=cfg, raised=repr(exc)[:120] if exc is not None else None)
        symx.CTX.events.append(f"{'raised ' + type(exc).__name__ if exc is not None else 'accepted'}")
        if exc is not None:
            symx.prove("raise=>outside-domain", NOT(dom), info)
        else:
            symx.prove("accept=>inside-domain", dom, info)
            g = opt.param_groups[0]
            b3 = g["beta3"]
            symx.prove("beta3-default", OR(AND(v["beta3"] == -1.0, _same(b3, v["beta1"])), AND(NOT(v["beta3"] == -1.0), _same(b3, v["beta3"]))), info)
            sps = g["start_preconditioning_step"]
            symx.prove("start-step-default", OR(AND(v["start_preconditioning_step"] == -1, sps == v["precondition_frequency"]),
                                                 AND(NOT(v["start_preconditioning_step"] == -1), sps == v["start_preconditioning_step"])), info)
        return "raised" if exc is not None else "accepted"

    return fn, dict(query_timeout_ms=20000, no_pins=True)


def _same(a, b):
    """identity of float values including NaN-free context (accepted values are never NaN)."""
    return a == b


def dom_without(v, graft, ign, name):
    w = dict(v)
    w[name] = BASE[name]
    return domain(w, graft, ign)


def jobs_for(tier):
    jobs = []
    singles = FLOATS + ["max_preconditioner_dim", "precondition_frequency", "start_preconditioning_step", "inv_root_override", "num_tolerated"]
    pairs = list(itertools.combinations(FLOATS, 2)) + [("precondition_frequency", "start_preconditioning_step"),
                                                       ("max_preconditioner_dim", "precondition_frequency"), ("inv_root_override", "precondition_frequency"),
                                                       ("beta1", "start_preconditioning_step"), ("lr", "max_preconditioner_dim"), ("inv_root_override", "num_tolerated")]
    n = 0
    for base in (1, 2):
        for s in [(x,) for x in singles] + pairs:
            grafts = ["adam"] if tier == "quick" else ["adam", "rmsprop", "adagrad", "sgd", None]
            if not any(x.startswith("graft_") for x in s) and tier == "quick":
                grafts = ["adam"] if base == 1 else [None]
            for g in grafts:
                if any(x.startswith("graft_") for x in s) and g in (None, "sgd"):
                    continue
                jobs.append(dict(id=f"j{n}", module="checks.c17", factory="make",
                                 cfg=dict(sym=list(s), base=base, graft=g, ignored=[], soap=False)))
                n += 1
    # ignored dims x inverse-root override, list overrides, SOAP config
    for ign, soap in itertools.product(([0], [1], [0, 1]), (False, True)):
        for s in (("inv_root_override",), ("inv_root_override", "precondition_frequency")):
            jobs.append(dict(id=f"j{n}", module="checks.c17", factory="make", cfg=dict(sym=list(s), base=1, graft=None, ignored=ign, soap=soap)))
            n += 1
    for s in (("iro_list0",), ("iro_list0", "iro_list1"), ("iro_list1", "lr")):
        for ign in ([], [0]):
            jobs.append(dict(id=f"j{n}", module="checks.c17", factory="make", cfg=dict(sym=list(s), base=1, graft=None, ignored=ign, soap=False, iro_list=True)))
            n += 1
    # acceptance and the -1 substitutions must not depend on whether the library's warnings are emitted
    for s in (("start_preconditioning_step", "precondition_frequency"), ("beta3", "beta1"), ("momentum",), ("epsilon",)):
        jobs.append(dict(id=f"j{n}", module="checks.c17", factory="make", cfg=dict(sym=list(s), base=1, graft="adam", ignored=[], soap=False, logging_enabled=True)))
        n += 1
    # the boolean options flipped (baseline 1 has momentum, dampening and weight decay non-zero): same domain
    for flags in (dict(use_nesterov=True), dict(use_bias_correction=False, use_decoupled_weight_decay=False), dict(use_merge_dims=False, use_nesterov=True)):
        syms = [("momentum",), ("dampening",), ("momentum", "dampening"), ("beta1", "beta3"), ("weight_decay", "lr"), ("epsilon",), ("max_preconditioner_dim",)]
        if tier == "thorough":
            syms = [(x,) for x in FLOATS + INTS if not x.startswith("iro_list")] + [("momentum", "dampening"), ("beta1", "beta3"), ("weight_decay", "lr")]
        for s in syms:
            jobs.append(dict(id=f"j{n}", module="checks.c17", factory="make", cfg=dict(sym=list(s), base=1, graft="adam", ignored=[], soap=False, flags=flags)))
            n += 1
    return jobs


def twin_jobs():
    return [dict(id="twin0", module="checks.c17", factory="make", cfg=dict(sym=["beta1"], base=1, graft=None, ignored=[], soap=False, twin="accept-beta1-one")),
            dict(id="twin1", module="checks.c17", factory="make", cfg=dict(sym=["lr", "beta2"], base=1, graft=None, ignored=[], soap=False, twin="reject-lr-zero"))]


def unsupported_configs():
    """NotImplementedError for unsupported config types (concrete cases, both backends)."""
    import torch
    from dataclasses import dataclass, field
    from distributed_shampoo.distributed_shampoo import DistributedShampoo
    from distributed_shampoo.shampoo_types import GraftingConfig, PreconditionerConfig, DistributedConfig
    from matrix_functions_types import DefaultEigenConfig

    @dataclass
    class MyGraft(GraftingConfig):
        pass

    @dataclass
    class MyDist(DistributedConfig):
        pass

    @dataclass(kw_only=True)
    class MyPrec(PreconditionerConfig):
        amortized_computation_config: object = field(default_factory=lambda: DefaultEigenConfig)

    out = []
    for name, kw in (("grafting", dict(grafting_config=MyGraft())), ("distributed", dict(distributed_config=MyDist())),
                     ("preconditioner", dict(preconditioner_config=MyPrec()))):
        w = torch.nn.Parameter(torch.zeros((2, 2), dtype=torch.float32))
        try:
            DistributedShampoo([w], **kw)
            out.append((name, "accepted"))
        except NotImplementedError:
            out.append((name, "NotImplementedError"))
        except Exception as e:
            out.append((name, type(e).__name__))
    # the same configs given per parameter group (param-group dicts may carry their own configs)
    for name, key, obj in (("preconditioner-in-group", "preconditioner_config", MyPrec()), ("grafting-in-group", "grafting_config", MyGraft())):
        w1 = torch.nn.Parameter(torch.zeros((2, 2), dtype=torch.float32))
        w2 = torch.nn.Parameter(torch.zeros((2, 2), dtype=torch.float32))
        try:
            DistributedShampoo([dict(params=[w1]), {"params": [w2], key: obj}])
            out.append((name, "accepted"))
        except NotImplementedError:
            out.append((name, "NotImplementedError"))
        except Exception as e:
            out.append((name, type(e).__name__))
    return out


def sequence_overrides():
    """inv_root_override is documented as int | Sequence[int]: every Sequence type is validated entry by entry (concrete cases, both backends).
    Returns [(description, expected, observed)]."""
    import collections
    import torch
    from distributed_shampoo.distributed_shampoo import DistributedShampoo

    out = []
    for desc, ov, ok in (("tuple (2, 2)", (2, 2), True), ("range(2, 4)", range(2, 4), True), ("UserList([2, 2])", collections.UserList([2, 2]), True),
                         ("tuple (2, -1)", (2, -1), False), ("UserList([2, -1])", collections.UserList([2, -1]), False), ("range(-1, 1)", range(-1, 1), False)):
        w = torch.nn.Parameter(torch.zeros((2, 2), dtype=torch.float32))
        try:
            DistributedShampoo([w], inv_root_override=ov)
            got = "accepted"
        except ValueError:
            got = "ValueError"
        except Exception as e:
            got = type(e).__name__
        out.append((desc, "accepted" if ok else "ValueError", got))
    return out


def run(tier, seed, argv):
    from vlib import par
    from vlib.report import Report

    rep = Report("C17", tier, seed)
    rep.bounds = dict(symbolic_at_a_time="1 or 2 hyperparameters", float_sort="IEEE Float64 (NaN, +-inf, -0.0 included)", int_sort="mathematical integers",
                      baselines=2, parameter="one 2x2 float32 parameter", grafting="adam only (quick) / all five + none (thorough)")
    rep.assumptions = ["hyperparameters not made symbolic in a harness are at one of two valid baselines (the property prescribes one/two at a time)",
                       "float hyperparameters are IEEE doubles (Python floats); no arithmetic is performed on them by the constructor",
                       "unsupported-config NotImplementedError cases are three concrete subclasses, not solver-quantified"]
    res = par.run_jobs(jobs_for(tier))
    rep.absorb("domain", res)
    tw = par.run_jobs(twin_jobs())
    rep.twin_expected = 2
    rep.twin_sat = sum(1 for r in tw.values() if any(x["status"] == "violation" for x in r["records"]))
    # the same predicate through the real constructor on the real torch build (separate process, no stand-in): boundary / interior / just-outside /
    # non-finite values one at a time and the coupled pairs two at a time
    import json
    import os
    import subprocess
    from vlib.report import PY, ROOT

    env = dict(os.environ)
    env["PYTHONPATH"] = f"{ROOT}:/repo"
    env["OMP_NUM_THREADS"] = "2"
    try:
        p = subprocess.run([PY, "-m", "checks.c17_real"], env=env, capture_output=True, text=True, timeout=600)
        real = json.loads(p.stdout)
    except Exception as e:
        real = None
        rep.harness_errors.append(dict(job="real-build boundary pass", why=repr(e)[:300]))
    if real is not None:
        rep.extra["real_build_boundary_cases"] = real["cases"]
        rep.validated_traces += real["cases"]
        if real["nbad"]:
            rep.extra["real_build_boundary_failures"] = real["bad"][:5]
            rep.violations.append(dict(label=f"real constructor vs documented domain: {real['bad'][0]}", info=dict(signature=dict(kind="real-boundary-pass"), cfg={}), model={}, job="concrete"))
    un = unsupported_configs()
    rep.extra["unsupported_config_cases"] = un
    for name, got in un:
        if got != "NotImplementedError":
            rep.violations.append(dict(label=f"unsupported-{name}-config", info=dict(signature=dict(kind="unsupported-config", which=name)), model={}, job="concrete"))
    so = sequence_overrides()
    rep.extra["sequence_override_cases"] = so
    for desc, exp, got in so:
        if exp != got:
            rep.violations.append(dict(label=f"inv_root_override given as {desc}: expected {exp}, constructor {got}", info=dict(signature=dict(kind="sequence-override", which=desc)), model={}, job="concrete"))
    return rep.finish("checks.c17")


def replay(record):
    """Real torch: construct with the witness values; report whether raise/accept contradicts the documented domain."""
    info = record.get("info") or {}
    if (info.get("signature") or {}).get("kind") == "real-boundary-pass":
        from checks import c17_real

        n, bad = c17_real.run_pass()
        return bool(bad), f"{n} boundary cases through the real constructor: {bad[:2] if bad else 'all agree with the documented domain'}"
    if (info.get("signature") or {}).get("kind") == "sequence-override":
        so = {d: (e, g) for d, e, g in sequence_overrides()}
        e, g = so[info["signature"]["which"]]
        return e != g, f"inv_root_override {info['signature']['which']}: expected {e}, real constructor {g}"
    if (info.get("signature") or {}).get("kind") == "unsupported-config":
        un = dict(unsupported_configs())
        w = info["signature"]["which"]
        return un[w] != "NotImplementedError", f"unsupported {w} config -> {un[w]}"
    cfg = info["cfg"]
    model = record.get("model", {})
    base = dict(BASE2 if cfg["base"] == 2 else BASE)
    if cfg.get("iro_list"):
        base["iro_list0"], base["iro_list1"] = 1, 0
    v = dict(base)
    for n in cfg["sym"]:
        x = model.get(n, base[n] if base[n] is not None else 0)
        if n in FLOATS:
            x = float(x) if not isinstance(x, list) else x[0] / x[1]
        else:
            x = int(x)
        v[n] = x
    exc, opt = construct(v, cfg["graft"], tuple(cfg["ignored"]), cfg["soap"], cfg.get("flags"))
    dom = bool(domain(v, cfg["graft"], tuple(cfg["ignored"])))
    txt = f"values={ {k: v[k] for k in cfg['sym']} } documented-domain={dom} constructor={'raised ' + repr(exc)[:80] if exc is not None else 'accepted'}"
    bad = (exc is None) != dom
    if exc is None and dom:
        g = opt.param_groups[0]
        exp_b3 = v["beta1"] if v["beta3"] == -1.0 else v["beta3"]
        exp_sps = v["precondition_frequency"] if v["start_preconditioning_step"] == -1 else v["start_preconditioning_step"]
        if g["beta3"] != exp_b3 or g["start_preconditioning_step"] != exp_sps:
            bad = True
            txt += f" defaults: beta3={g['beta3']} (expected {exp_b3}) start={g['start_preconditioning_step']} (expected {exp_sps})"
    return bad, txt
