"""Replay of C07 counterexamples on the real torch build: one OS process per simulated rank (gloo, CPU), real
FSDPDistributor / HSDPDistributor on hand-built flat shards, compared with the serial optimizer on the recovered slabs."""
from __future__ import annotations

import json
import os
import subprocess
import sys
import tempfile
from math import prod

from checks.c06_replay import _vals, _build, perturb, lowp_problem, dump_state_summary, placement_problems


def _orig_vals(cfg, vals, name, i, shape, k=None):
    import itertools

    import torch

    t = torch.zeros(tuple(shape), dtype=torch.float64)
    for idx in itertools.product(*[range(s) for s in shape]):
        key = (f"w{i}_" if k is None else f"g{k}p{i}_") + "_".join(map(str, idx))
        t[idx] = float(vals.get(key, (0.25 * (1 + sum(idx)) if k is None else 0.5 - 0.125 * sum(idx) + 0.0625 * k)))
    return t.reshape(-1)


def worker(rank, world, cfgfile, initfile, outfile):
    import torch
    import torch.distributed as dist
    from datetime import timedelta
    from distributed_shampoo.shampoo_types import FSDPParameterMetadata, FSDPShampooConfig, HSDPShampooConfig
    from torch.distributed.fsdp import ShardingStrategy

    data = json.load(open(cfgfile))
    cfg, vals = data["cfg"], data["vals"]
    dist.init_process_group("gloo", init_method=f"file://{initfile}", rank=rank, world_size=world, timeout=timedelta(seconds=data["timeout"]))
    origs = [tuple(s) for s in cfg["orig_shapes"]]
    hsdp = cfg.get("hsdp")
    nshard = len(cfg["cuts"])
    srank = rank % nshard if hsdp else rank
    my = cfg["cuts"][srank]
    c2 = dict(cfg)
    c2["params"] = [[e - s] for s, e in my]
    vals2 = dict(vals)
    flat = [_orig_vals(cfg, vals, "w", i, origs[i]) for i in range(len(origs))]
    params = [torch.nn.Parameter(flat[i][s:e].clone()) for i, (s, e) in enumerate(my)]
    meta = {p: FSDPParameterMetadata(fqn=f"p{i}", shape=torch.Size(origs[i]), numel=int(prod(origs[i])), start_idx=my[i][0], end_idx=my[i][1],
                                     sharding_strategy=ShardingStrategy.HYBRID_SHARD if hsdp else ShardingStrategy.FULL_SHARD) for i, p in enumerate(params)}
    if hsdp:
        from torch.distributed.device_mesh import init_device_mesh

        mesh = init_device_mesh("cpu", (hsdp["replicate"], nshard), mesh_dim_names=("replicate", "shard"))
        from distributed_shampoo.shampoo_types import CommunicationDType

        dc = HSDPShampooConfig(param_to_metadata=meta, device_mesh=mesh, num_trainers_per_group=hsdp.get("group", -1), communicate_params=hsdp.get("communicate_params", False),
                               communication_dtype=getattr(CommunicationDType, hsdp.get("comm", "FP32")))
    else:
        dc = FSDPShampooConfig(param_to_metadata=meta)
    _, opt = _build(c2, vals, dc, given_params=params)
    for k in range(1, cfg["T"] + 1):
        for i, (p, (s, e)) in enumerate(zip(params, my)):
            present = not (cfg.get("presence") == "symbolic" and (cfg.get("presence_params") is None or i in cfg["presence_params"]) and not bool(vals.get(f"present_p{i}_s{k}", False)))
            p.grad = _orig_vals(cfg, vals, "g", i, origs[i], k)[s:e].clone() if present else None
        opt.step()
    json.dump([p.detach().tolist() for p in params], open(outfile, "w"))
    dump_state_summary(opt, params, outfile)
    dist.destroy_process_group()


def replay(record):
    import torch
    from checks.c07 import ref_slabs

    info = record.get("info") or {}
    cfg = info["cfg"]
    vals = _vals(record)
    origs = [tuple(s) for s in cfg["orig_shapes"]]
    hsdp = cfg.get("hsdp")
    low = (hsdp or {}).get("comm", "FP32") in ("BF16", "FP16")
    if low:
        vals = perturb(vals)
    nshard = len(cfg["cuts"])
    world = nshard * (hsdp["replicate"] if hsdp else 1)
    root = os.path.dirname(os.path.dirname(os.path.abspath(__file__)))
    d = tempfile.mkdtemp(prefix="c07replay")
    cfgfile = os.path.join(d, "cfg.json")
    json.dump(dict(cfg=cfg, vals=vals, timeout=20), open(cfgfile, "w"))
    env = dict(os.environ)
    env["PYTHONPATH"] = f"{root}:/repo"
    procs = [subprocess.Popen([sys.executable, "-m", "checks.c07_replay", "worker", str(r), str(world), cfgfile, os.path.join(d, "init"), os.path.join(d, f"out{r}.json")],
                              env=env, stdout=subprocess.PIPE, stderr=subprocess.PIPE, text=True) for r in range(world)]
    problems = []
    for p in procs:
        try:
            p.wait(timeout=60)
        except subprocess.TimeoutExpired:
            p.kill()
            problems.append("a rank hung")
    for r, p in enumerate(procs):
        if p.returncode != 0:
            err = (p.stderr.read() or "").strip().splitlines()
            problems.append(f"rank {r} failed: {err[-1] if err else p.returncode}")
    if not problems and hsdp and (info.get("signature") or {}).get("kind") == "state-placement":
        reps = hsdp["replicate"]
        gsz = reps if hsdp.get("group", -1) == -1 else hsdp["group"]
        problems += placement_problems(d, [[(q0 + q) * nshard + t for q in range(gsz)] for t in range(nshard) for q0 in range(0, reps, gsz)])
    if not problems:
        flat = [_orig_vals(cfg, vals, "w", i, origs[i]) for i in range(len(origs))]
        for srank in range(nshard):
            my = cfg["cuts"][srank]
            slabs = [(i, a, b, (((b - a) // max(prod(tail), 1),) + tuple(tail)) if tail else (b - a,)) for i, (s, e) in enumerate(my) for (a, b, tail) in ref_slabs(origs[i], s, e)]
            if not slabs:
                continue
            c2 = dict(cfg)
            c2["params"] = [list(shp) for (_, _, _, shp) in slabs]
            sp = [torch.nn.Parameter(flat[i][a:b].reshape(shp).clone()) for (i, a, b, shp) in slabs]
            _, opt = _build(c2, vals, None, given_params=sp)
            for k in range(1, cfg["T"] + 1):
                for (i, a, b, shp), p in zip(slabs, sp):
                    present = not (cfg.get("presence") == "symbolic" and (cfg.get("presence_params") is None or i in cfg["presence_params"]) and not bool(vals.get(f"present_p{i}_s{k}", False)))
                    p.grad = _orig_vals(cfg, vals, "g", i, origs[i], k)[a:b].reshape(shp).clone() if present else None
                opt.step()
            exp = {}
            for (i, a, b, shp), p in zip(slabs, sp):
                for off, v in enumerate(p.detach().reshape(-1).tolist()):
                    exp[(i, a + off)] = v
            for rep in range(hsdp["replicate"] if hsdp else 1):
                r = rep * nshard + srank if hsdp else srank
                got = json.load(open(os.path.join(d, f"out{r}.json")))
                for i, (s, e) in enumerate(my):
                    if low and e > s:
                        if got[i] != json.load(open(os.path.join(d, f"out{srank}.json")))[i]:
                            problems.append(f"rank {r}: parameter {i} differs from replica 0 (replicas not identical)")
                        pr = lowp_problem(torch.tensor(got[i], dtype=torch.float64), torch.tensor([exp[(i, s + off)] for off in range(e - s)], dtype=torch.float64), flat[i][s:e],
                                          hsdp["comm"], hsdp.get("communicate_params", False))
                        if pr:
                            problems.append(f"rank {r}: parameter {i}: {pr}")
                        continue
                    for off in range(e - s):
                        if abs(got[i][off] - exp[(i, s + off)]) > 1e-6 * (1 + abs(exp[(i, s + off)])):
                            problems.append(f"rank {r}: element {s + off} of parameter {i}: {got[i][off]} vs serial-on-blocks {exp[(i, s + off)]}")
                            break
    import shutil

    shutil.rmtree(d, ignore_errors=True)
    return bool(problems), f"real torch, {world} process(es): " + ("; ".join(problems[:3]) if problems else "every shard equals the serial optimizer on its recovered blocks")


if __name__ == "__main__":
    if sys.argv[1] == "worker":
        import logging

        logging.disable(logging.CRITICAL)
        worker(int(sys.argv[2]), int(sys.argv[3]), sys.argv[4], sys.argv[5], sys.argv[6])
