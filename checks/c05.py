"""C05 -- blocks tile each parameter exactly and blocking does not change the math.

(a) tiling: the real Distributor blocks parameters of every shape of order 0..4 (dims <= bound),
    every max_preconditioner_dim, merge on/off, on the stand-in (exact numpy view semantics): blocks
    are views of the parameter's storage (write-through), cover every element exactly once, keep
    row-major order within the merged shape, have no dim above the limit; gradient blocks carry
    the gradient elements of the same index sets.
(b) merging arithmetic: the real merge_small_dims with SYMBOLIC dims and threshold (z3 Ints):
    product preserved, output dims are products of consecutive runs of the non-1 input dims, every
    fused run has product <= threshold, size-1 dims dropped.
(c) invariance: optimizer on W under a blocking == optimizer on the blocks as separate
    parameters, symbolic hyperparameters / values / gradients (differential, z3 identities).
"""
from __future__ import annotations

import itertools
from math import prod

import numpy as np
import z3

from checks import c01
from vlib import symx, optharness as H
from vlib.symx import SymInt


# ------------------------------------------------------------------------------------------ (b) merge arithmetic
def make_merge(cfg):
    order = cfg["order"]
    twin = cfg.get("twin")

    def fn():
        from distributed_shampoo.utils.shampoo_utils import merge_small_dims

        dims = [symx.symint(f"d{i}") for i in range(order)]
        thr = symx.symint("thr")
        for d in dims:
            symx.CTX.assume(z3.And(d.e >= 1, d.e <= 64))
        symx.CTX.assume(z3.And(thr.e >= 1, thr.e <= 64))
        info = dict(signature=dict(kind="merge-arithmetic"), cfg=cfg)
        out = merge_small_dims(tuple(dims), thr)
        out = [o if isinstance(o, SymInt) else SymInt(o) for o in out]
        if twin == "overfuse" and len(out) >= 2:
            out = [out[0] * out[1]] + out[2:]
        E = [d.e for d in dims]
        O = [o.e for o in out]
        symx.CTX.events.append(f"order {order}: {len(out)} merged dims")
        items = [("product is preserved", _prod(O) == _prod(E))]
        # which input dims are 1 on this path (decided by the code's own filter)
        non1 = []
        for i, d in enumerate(dims):
            r, _ = symx._check([d.e != 1] + symx.CTX.pc, 10000)
            if r != "unsat":
                non1.append(i)
        if not non1:
            items.append(("all-ones shape merges to (1,)", z3.And(len(O) == 1, O[0] == 1) if len(O) == 1 else z3.BoolVal(False)))
            symx.prove_batch(items, info)
            return len(out)
        symx.prove_batch(items, info)
        # find a composition of the non-1 dims into consecutive runs matching the output
        m = len(non1)
        found = False
        for cuts in itertools.product((0, 1), repeat=m - 1):
            runs, cur = [], [non1[0]]
            for c, i in zip(cuts, non1[1:]):
                if c:
                    runs.append(cur)
                    cur = [i]
                else:
                    cur.append(i)
            runs.append(cur)
            if len(runs) != len(O):
                continue
            claim = z3.And([O[j] == _prod([E[i] for i in run]) for j, run in enumerate(runs)] +
                           [_prod([E[i] for i in run]) <= thr.e for run in runs if len(run) > 1] +
                           [E[i] != 1 for i in non1])
            r, _ = symx._check([z3.Not(claim)] + symx.CTX.pc, 20000)
            symx.CTX.stats["obligations"] += 1
            if r == "unsat":
                found = True
                break
        symx.prove("merged dims are products of consecutive runs of the non-1 dims, each fused run within the threshold", found, info)
        return len(out)

    return fn, dict(query_timeout_ms=20000, no_pins=True)


def _prod(es):
    r = z3.IntVal(1)
    for e in es:
        r = r * e
    return r


# ------------------------------------------------------------------------------------------ (a) tiling
def tiling_cases(tier):
    maxd = 3 if tier == "quick" else 4
    shapes = [()]
    for o in range(1, 5):
        dimsets = itertools.product(range(1, maxd + 1), repeat=o)
        shapes += [s for s in dimsets]
    if tier == "quick":
        shapes = [s for s in shapes if prod(s) <= 27] + [(4, 5), (6,), (2, 3, 4), (5, 1, 2)]
    else:
        shapes += [(5, 6), (7,), (2, 5, 3), (6, 1, 1, 4)]
    limits = [1, 2, 3, 4, 6] if tier == "quick" else [1, 2, 3, 4, 5, 6, 16]
    return shapes, limits


def check_tiling(shape, mpd, merge):
    """Concrete labels on the current torch (stand-in or real): returns a list of problems."""
    import torch
    from distributed_shampoo.utils.shampoo_distributor import Distributor
    from distributed_shampoo.shampoo_types import MAX_PRECONDITIONER_DIM, PARAMS, USE_MERGE_DIMS
    from specs import shampoo_ref as R

    n = prod(shape)
    vals = np.arange(1, n + 1, dtype=float).reshape(shape) if shape else np.array(1.0)
    p = torch.nn.Parameter(torch.tensor(vals.tolist() if shape else 1.0, dtype=torch.float64))
    p.grad = torch.tensor((vals * 1000).tolist() if shape else 1000.0, dtype=torch.float64)
    d = Distributor({PARAMS: [p], MAX_PRECONDITIONER_DIM: mpd, USE_MERGE_DIMS: merge})
    blocks = d.local_blocked_params
    gblocks = d.merge_and_block_gradients()
    probs = []
    ms, sl = R.blocking(tuple(shape), mpd, merge)

    def flat(t):
        return [float(x) for x in (H.read(t).reshape(-1))]

    seen = []
    for b in blocks:
        if any(s > mpd for s in b.shape) and merge or any(s > mpd for s in b.shape):
            probs.append(f"block of shape {tuple(b.shape)} exceeds the limit {mpd}")
        seen += flat(b)
    if sorted(seen) != [float(i) for i in range(1, n + 1)]:
        probs.append("blocks do not cover every element exactly once")
    if len(blocks) != len(gblocks):
        probs.append("gradient blocks and parameter blocks differ in number")
    for b, g in zip(blocks, gblocks):
        if [x * 1000 for x in flat(b)] != flat(g):
            probs.append("a gradient block covers a different index set than its parameter block")
            break
    # row-major order within the merged shape: blocks equal the grid of slices of a merged view.  With merging off the merged
    # view is the original shape (no fusing at all); with merging on ANY valid fusion is accepted (runs of adjacent non-1 dims
    # with product <= limit, size-1 dims dropped) -- maximal fusing is not required by the property.
    def grid_matches(ms):
        sl2 = R.block_slices(ms, mpd)
        if len(sl2) != len(blocks):
            return False
        mv = vals.reshape(ms)
        for b, s_ in zip(blocks, sl2):
            exp = np.array(mv[s_])
            if tuple(b.shape) != tuple(exp.shape) or flat(b) != [float(x) for x in exp.reshape(-1)]:
                return False
        return True

    if not merge:
        cands = [tuple(shape)]
    else:
        non1 = [d for d in shape if d != 1] or [1]
        cands = []
        for cuts in itertools.product((0, 1), repeat=len(non1) - 1):
            runs, cur = [], [non1[0]]
            for c, d_ in zip(cuts, non1[1:]):
                if c:
                    runs.append(cur)
                    cur = [d_]
                else:
                    cur.append(d_)
            runs.append(cur)
            if all(len(r) == 1 or prod(r) <= mpd for r in runs):
                cands.append(tuple(prod(r) for r in runs))
        if not shape:
            cands.append(())
    if not any(grid_matches(ms_) for ms_ in cands):
        probs.append(f"blocks (shapes {[tuple(b.shape) for b in blocks][:4]}) are not the row-major grid over " +
                     ("the original shape (merging is off)" if not merge else "any valid fusion of the dims"))
    # views: writing through a block changes the parameter
    before = flat(p)
    for i, b in enumerate(blocks):
        b.add_(0.5)
    after = flat(p)
    if [x + 0.5 for x in before] != after:
        probs.append("blocks are not views of the parameter's storage (write-through failed)")
    return probs


def tiling_sweep(tier):
    shapes, limits = tiling_cases(tier)
    symx.CTX.mode = "concrete"
    n, bad = 0, []
    try:
        for shape in shapes:
            for mpd in limits:
                for merge in (False, True, False):  # off after on as well: state leaking between the two settings must not matter
                    n += 1
                    try:
                        pr = check_tiling(shape, mpd, merge)
                    except Exception as e:
                        pr = [f"exception {type(e).__name__}: {e}"]
                    if pr:
                        bad.append((list(shape), mpd, merge, pr[0]))
    finally:
        symx.CTX.mode = "symbolic"
    return n, bad


# ------------------------------------------------------------------------------------------ (c) invariance
def make_inv(cfg):
    T = cfg["T"]
    tier = cfg.get("tier", "quick")

    def fn():
        from distributed_shampoo.shampoo_types import DISTRIBUTOR

        wrap = None
        if cfg.get("strided"):
            # the parameter is a transposed (non-row-major) view: W0 holds the values of the underlying row-major tensor
            wrap = lambda p, i: type(p)(p.detach().T) if len(cfg["params"][i]) == 2 else p  # noqa: E731
        A = H.OptRun(cfg, param_wrap=wrap)
        info = A._sig("blocking-changes-the-math")
        blocks = A.opt._per_group_state_lists[0][DISTRIBUTOR].local_blocked_params
        bshapes = [tuple(b.shape) for b in blocks]
        # which element of which parameter each block entry is: the initial values are distinct variables, so an entry is identified by its term
        where = {}
        for pi, p in enumerate(A.params):
            arr = H.read(p)
            for idx in (np.ndindex(*arr.shape) if arr.ndim else [()]):
                where[arr[idx].fp if hasattr(arr[idx], "fp") else float(arr[idx])] = (pi, idx)
        bmap = []
        for b in blocks:
            a = H.read(b)
            m = np.empty(a.shape, dtype=object)
            for idx in (np.ndindex(*a.shape) if a.ndim else [()]):
                key = a[idx].fp if hasattr(a[idx], "fp") else float(a[idx])
                if key not in where:
                    symx.prove("every block entry is an element of a parameter", False, info)
                m[idx] = where[key]
            bmap.append(m)
        for pi, p in enumerate(A.params):
            symx.prove("parameters stay the tensors handed to the optimizer (blocks are views, so writes reach them)", A.opt.param_groups[0]["params"][pi] is p, info)
        cfgB = dict(cfg)
        cfgB.update(params=bshapes, mpd=10**6, merge=False, groups=None)
        B = H.OptRun(cfgB, init_values=[H.read(b) for b in blocks], hp=A.hp)
        for k in range(1, T + 1):
            g = [H.arr_var(f"g{k}p{i}", tuple(H.read(p).shape)) for i, p in enumerate(A.params)]
            A.set_grads(g)
            if cfg.get("grad_bucket"):
                # the gradients are contiguous views into one flat buffer (as with bucketed gradient all-reduce): non-zero storage offsets
                import torch

                flat = np.concatenate([np.array([H.zero()], dtype=object)] + [x.reshape(-1) for x in g])
                bucket = H.to_tensor(flat, A.pdt)
                off = 1
                for p, x in zip(A.params, g):
                    nel = int(np.prod(x.shape)) if x.ndim else 1
                    p.grad = bucket[off:off + nel].view(*x.shape) if x.ndim else bucket[off:off + nel].reshape(())
                    off += nel
            # the blocks' own gradients, taken element by element from the map above -- NOT from the implementation's gradient blocking
            gb = []
            for m in bmap:
                x = np.empty(m.shape, dtype=object)
                for idx in (np.ndindex(*m.shape) if m.ndim else [()]):
                    pi, j = m[idx]
                    x[idx] = g[pi][j]
                gb.append(x)
            B.set_grads(gb)
            ea, eb = H.guarded_step(A), H.guarded_step(B)
            symx.prove("both runs step without raising", ea is None and eb is None, info)
            for bi, (m, pb) in enumerate(zip(bmap, B.params)):
                b = H.read(pb)
                for idx in (np.ndindex(*b.shape) if b.ndim else [()]):
                    pi, j = m[idx]
                    # read through the PARAMETER (not through the block): an update that lands in a private copy of the block is a violation
                    symx.prove_equal(f"blocked tensor == its blocks as separate parameters (block {bi}{list(idx)} step {k})", H.read(A.params[pi])[j], b[idx], info)
            # per-block state
            sa = [x for pi in range(len(A.params)) for x in A.snapshot_param(pi) if x[0] not in ("param", "state/step")]
            sb = [x for pi in range(len(B.params)) for x in B.snapshot_param(pi) if x[0] not in ("param", "state/step")]
            symx.prove("same number of per-block state tensors", len(sa) == len(sb), info)
            for (na, ta, _, va), (nb, tb, _, vb) in zip(sa, sb):
                for idx in (np.ndindex(*va.shape) if va.ndim else [()]):
                    symx.prove_equal(f"per-block state is the same ({na} vs {nb}{list(idx)} step {k})", va[idx], vb[idx], info)
        return "ok"

    return fn, H.default_opts(tier)


def jobs_for(tier):
    mj = [dict(id=f"m{o}", module="checks.c05", factory="make_merge", cfg=dict(order=o)) for o in range(0, 5)]
    ij = []
    n = 0
    for kw in (dict(params=[(2, 3)], mpd=2, merge=False, graft="adam", nesterov=True, bias_corr=True, decoupled=True),
               dict(params=[(2, 1, 2)], mpd=2, merge=True, graft="sgd", nesterov=False, bias_corr=True, decoupled=False),
               dict(params=[(4,), (2, 2)], mpd=2, merge=True, graft=None, nesterov=False, bias_corr=False, decoupled=True),
               dict(params=[(2, 2, 2)], mpd=2, merge=True, graft="rmsprop", nesterov=False, bias_corr=True, decoupled=True, fixed=dict(mom=0)),
               # a 2 x 2 grid of blocks (split along two dimensions): block numbering of parameters and gradients must agree
               dict(params=[(4, 4)], mpd=2, merge=False, graft=None, nesterov=False, bias_corr=True, decoupled=True, fixed=dict(mom=0, wd=0), T=1),
               dict(params=[(3, 4)], mpd=2, merge=False, graft="sgd", nesterov=False, bias_corr=True, decoupled=True, fixed=dict(mom=0), T=1),
               # gradients that are views at non-zero offsets into one flat buffer
               dict(params=[(2, 3), (3,)], mpd=2, merge=False, graft=None, nesterov=False, bias_corr=True, decoupled=True, fixed=dict(mom=0, wd=0), T=1, grad_bucket=True),
               # a parameter in a non-row-major layout (transposed view), dims too large to merge / merging off
               dict(params=[(3, 2)], mpd=2, merge=False, graft="adam", nesterov=False, bias_corr=True, decoupled=True, fixed=dict(mom=0), strided=True),
               dict(params=[(2, 3)], mpd=4, merge=True, graft=None, nesterov=False, bias_corr=True, decoupled=True, fixed=dict(mom=0, wd=0), strided=True)):
        cfg = c01.base_cfg(**dict(dict(tier=tier, assume_generic=True, pf=1, sps=2, T=2), **kw))
        ij.append(dict(id=f"i{n}", module="checks.c05", factory="make_inv", cfg=cfg))
        n += 1
    if tier == "thorough":
        for kw in (dict(params=[(3, 2)], mpd=2, merge=False, graft="adagrad", nesterov=True, bias_corr=True, decoupled=True, precond="soap_eigh"),
                   dict(params=[(2, 3)], mpd=1, merge=False, graft="adam", nesterov=True, bias_corr=True, decoupled=False, assume_generic=False),
                   dict(params=[(2, 2, 1, 2)], mpd=4, merge=True, graft="adam", nesterov=False, bias_corr=True, decoupled=True, fixed=dict(mom=0))):
            kw2 = dict(assume_generic=True)
            kw2.update(kw)
            cfg = c01.base_cfg(tier=tier, pf=1, sps=2, T=2, **kw2)
            ij.append(dict(id=f"i{n}", module="checks.c05", factory="make_inv", cfg=cfg))
            n += 1
    return mj, ij


def run(tier, seed, argv):
    from vlib import par
    from vlib.report import Report

    rep = Report("C05", tier, seed)
    mj, ij = jobs_for(tier)
    shapes, limits = tiling_cases(tier)
    rep.bounds = dict(tiling_shapes=len(shapes), tiling_limits=limits, merge_arithmetic="order 0..4, dims and threshold symbolic integers 1..64", invariance_configs=len(ij))
    rep.assumptions = ["tiling: shapes/limits enumerated, element labels concrete, on the stand-in's exact view semantics (validated against torch in setup; replay on real torch)",
                       "maximality of the fusion is not required (the property does not state it)", "invariance: as C01 (real arithmetic, recording stubs)"]
    rep.validate_standin(6 if tier == "quick" else 24)
    rep.absorb("merge-arithmetic", par.run_jobs(mj, chunk=16))
    rep.absorb("invariance", par.run_jobs(ij, chunk=6))
    tw = par.run_jobs([dict(id="twin0", module="checks.c05", factory="make_merge", cfg=dict(order=3, twin="overfuse"))])
    rep.twin_expected = 1
    rep.twin_sat = int(any(x["status"] == "violation" for r in tw.values() for x in r["records"]))
    n, bad = tiling_sweep(tier)
    rep.extra["tiling_cases"] = n
    rep.validated_traces = n
    if bad:
        rep.extra["tiling_failures"] = bad[:5]
        rep.violations.append(dict(label=f"tiling: shape {bad[0][0]} limit {bad[0][1]} merge {bad[0][2]}: {bad[0][3]}",
                                   info=dict(signature=dict(kind="tiling"), cfg=dict(shape=bad[0][0], mpd=bad[0][1], merge=bad[0][2])), model={}, job="concrete"))
    return rep.finish("checks.c05")


def replay(record):
    info = record.get("info") or {}
    kind = (info.get("signature") or {}).get("kind")
    cfg = info.get("cfg", {})
    if kind == "tiling":
        pr = []
        for mg in (False, True, False):  # the same order as the sweep: state leaking between the settings is part of the input
            pr += [f"(merge {mg}) {x}" for x in check_tiling(tuple(cfg["shape"]), cfg["mpd"], mg)]
        return bool(pr), f"real torch, shape {cfg['shape']} limit {cfg['mpd']} merge {cfg['merge']}: {pr or 'tiling relations hold'}"
    if kind == "merge-arithmetic":
        from distributed_shampoo.utils.shampoo_utils import merge_small_dims
        from specs import shampoo_ref as R

        m = record.get("model", {})
        dims = tuple(int(m.get(f"d{i}", 1)) for i in range(cfg["order"]))
        thr = int(m.get("thr", 1))
        out = tuple(merge_small_dims(dims, thr))
        probs = []
        if prod(out) != prod(dims):
            probs.append("product not preserved")
        non1 = [d for d in dims if d != 1]
        ok = False
        if not non1:
            ok = out == (1,)
        else:
            for cuts in itertools.product((0, 1), repeat=len(non1) - 1):
                runs, cur = [], [non1[0]]
                for c, d in zip(cuts, non1[1:]):
                    if c:
                        runs.append(cur)
                        cur = [d]
                    else:
                        cur.append(d)
                runs.append(cur)
                if tuple(prod(r) for r in runs) == out and all(prod(r) <= thr for r in runs if len(r) > 1):
                    ok = True
        if not ok:
            probs.append(f"{out} is not a fusion of consecutive runs of {dims} within threshold {thr}")
        return bool(probs), f"merge_small_dims({dims}, {thr}) = {out}: {probs or 'ok'}"
    return H.replay_record(record, make_inv)
