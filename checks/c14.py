"""C14 -- block-to-rank assignment: deterministic balanced partition, disjoint buffers.

The three copies of `_distribute_buffer_sizes` (DDP, HSDP, HybridShard distributor) are called
unbound on a stand-in `self` with *symbolic* block byte sizes (z3 Ints; ties included).  Sorting
and the heap compare symbolic integers, so the explorer enumerates every ordering of the sizes
and loads.  Per path z3 proves: 64-byte round-up, the result is an LPT assignment (largest first,
each block to a least loaded rank at its turn), max-min load <= largest block, the 4/3 bound
against a *symbolic alternative assignment*, agreement of the three copies and independence of
anything but sizes and group size.  The buffer construction is checked on concrete block shapes
in the stand-in (byte ranges of the typed views).
"""
from __future__ import annotations

import itertools
import operator
from math import prod

import z3

from vlib import symx
from vlib.symx import SymInt

COPIES = (("ddp", "distributed_shampoo.utils.shampoo_ddp_distributor", "DDPDistributor", "_group_size"),
          ("hsdp", "distributed_shampoo.utils.shampoo_hsdp_distributor", "HSDPDistributor", "_dist_group_size"),
          ("hybrid", "distributed_shampoo.utils.shampoo_hybrid_shard_distributor", "HybridShardDistributor", "_dist_group_size"))
MAXSIZE = 1 << 16


class StandIn:
    """`self` for the unbound call: only the group size exists."""

    def __init__(self, attr, g, junk):
        object.__setattr__(self, attr, g)
        object.__setattr__(self, "_junk", junk)


def _cls(mod, name):
    import importlib

    return getattr(importlib.import_module(mod), name)


def _e(x):
    return x.e if isinstance(x, SymInt) else z3.IntVal(int(x))


def make(cfg):
    n, G = cfg["n"], cfg["G"]
    twin = cfg.get("twin")

    def fn():
        sizes = tuple(symx.symint(f"s{i}") for i in range(n))
        for s in sizes:
            symx.CTX.assume(z3.And(s.e >= 0, s.e <= MAXSIZE))
        info = dict(signature=dict(kind="assignment"), cfg=cfg)
        results = []
        for tag, mod, cname, attr in COPIES:
            cls = _cls(mod, cname)
            r1 = cls._distribute_buffer_sizes(StandIn(attr, G, 1), sizes)
            results.append((tag, r1))
        tag0, res = results[0]
        ranks = [r for _, r in res]
        al = [a for a, _ in res]
        if twin == "not-least-loaded" and n >= 2:
            ranks = list(ranks)
            ranks[-1] = (ranks[-1] + 1) % G
        symx.CTX.events.append(f"n={n} G={G} ranks={ranks}")
        items = [("result-length", len(res) == n)]
        for i in range(n):
            items.append(("rank-in-group", isinstance(ranks[i], int) and 0 <= ranks[i] < G))
            items.append(("aligned-to-64", z3.And(_e(al[i]) % 64 == 0, _e(al[i]) >= sizes[i].e, _e(al[i]) - sizes[i].e < 64)))
        symx.prove_batch(items, info)
        # copies agree
        for tag, r in results[1:]:
            symx.prove_batch([(f"copies-agree:{tag}", z3.And(_e(a1) == _e(a2), z3.BoolVal(r1 == r2))) for (a1, r1), (a2, r2) in zip(res, r)]
                             + [(f"copies-agree:{tag}:len", len(r) == n)], info)
        # a function of sizes and group size alone: a second stand-in differing in everything else
        cls = _cls(COPIES[0][1], COPIES[0][2])
        res2 = cls._distribute_buffer_sizes(StandIn(COPIES[0][3], G, "other"), tuple(sizes))
        symx.prove_batch([("deterministic", z3.And(_e(a1) == _e(a2), z3.BoolVal(r1 == r2))) for (a1, r1), (a2, r2) in zip(res, res2)], info)
        A = [_e(a) for a in al]
        loads = [z3.Sum([A[i] for i in range(n) if ranks[i] == r] + [z3.IntVal(0)]) for r in range(G)]
        # LPT: there is a non-increasing order in which every block went to a least loaded rank
        order = [i for i, _ in sorted(enumerate(al), key=operator.itemgetter(1), reverse=True)]
        if not _lpt_ok(order, A, ranks, G):
            ok = False
            for perm in itertools.permutations(range(n)):
                if list(perm) != order and _lpt_ok(list(perm), A, ranks, G):
                    ok = True
                    break
            symx.prove("is-an-LPT-assignment (largest first, least loaded rank at its turn)", ok, info)
        else:
            symx.CTX.stats["obligations"] += 1
        # balance
        big = z3.Int("big")
        lmax, lmin = z3.Int("lmax"), z3.Int("lmin")
        defs = [z3.And([big >= a for a in A]), z3.Or([big == a for a in A]),
                z3.And([lmax >= l for l in loads]), z3.Or([lmax == l for l in loads]),
                z3.And([lmin <= l for l in loads]), z3.Or([lmin == l for l in loads])]
        symx.prove("max-min-load<=largest-block", z3.Implies(z3.And(defs), lmax - lmin <= big), info)
        # 4/3 of any alternative assignment
        alt = [z3.Int(f"alt{i}") for i in range(n)]
        M = z3.Int("M")
        altc = [z3.And(a >= 0, a < G) for a in alt]
        altload = [z3.Sum([z3.If(alt[i] == r, A[i], 0) for i in range(n)]) for r in range(G)]
        symx.prove("max-load<=4/3-of-any-assignment",
                   z3.Implies(z3.And(defs + altc + [M >= l for l in altload]), 3 * lmax <= 4 * M), info)
        return ranks

    return fn, dict(query_timeout_ms=30000, no_pins=True)


def _lpt_ok(order, A, ranks, G):
    """Under the path condition: `order` is non-increasing in size and each block goes to a minimal-load rank."""
    n = len(order)
    claims = []
    for k in range(n - 1):
        claims.append(A[order[k]] >= A[order[k + 1]])
    load = [z3.IntVal(0)] * G
    for i in order:
        for r in range(G):
            if r != ranks[i]:
                claims.append(load[ranks[i]] <= load[r])
        load = list(load)
        load[ranks[i]] = load[ranks[i]] + A[i]
    symx.CTX.stats["obligations"] += 1
    r, _ = symx._check([z3.Not(z3.And(claims))] + symx.CTX.pc, symx.CTX.opts.get("query_timeout_ms", 30000))
    if r == "unknown":
        raise symx.PathViolation(symx._viol("LPT-order", None, None, unknown=True))
    return r == "unsat"


def jobs_for(tier):
    combos = [(1, 1), (1, 2), (2, 1), (2, 2), (3, 2), (3, 3), (4, 2), (4, 3), (2, 3)]
    if tier == "thorough":
        combos += [(5, 2), (5, 3), (4, 4), (5, 4), (6, 2), (6, 3), (3, 4)]
    return [dict(id=f"n{n}g{g}", module="checks.c14", factory="make", cfg=dict(n=n, G=g)) for n, g in combos]


# ------------------------------------------------------------------------------------------ buffers (concrete shapes)
def _byte_range(t, base_ptr, cell):
    off = (t.data_ptr() - base_ptr) // cell
    k = getattr(t, "_bytes_per_cell", None) or t.dtype.itemsize
    return off, off + t.numel() * (t.dtype.itemsize if t.dtype.itemsize > 1 else 1)


def buffers_check(tier):
    """_split_local_dist_buffers / _construct_distributed_buffers on concrete block shapes (stand-in tensors)."""
    import torch

    problems, cases = [], 0
    shapesets = [[(2, 3), (4,), (1, 1)], [(5,), (5,), (5,), (2, 2)], [(3, 3), (16, 2), (1,), (7,), (2, 2, 2)], [(33,)], [(4, 4), (4, 4)]]
    if tier == "thorough":
        shapesets += [[(17,), (16,), (15,), (1,), (2,), (3,)], [(8, 8), (3,), (64,), (65,)], [(2, 2)] * 7]
    symx.CTX.mode = "concrete"
    try:
        for tag, mod, cname, attr in COPIES:
            cls = _cls(mod, cname)
            for shapes in shapesets:
                for G in (1, 2, 3, 4):
                    for comm in (torch.float32, torch.bfloat16, torch.float16):
                        cases += 1
                        blocks = tuple(torch.zeros(s, dtype=torch.float32) for s in shapes)
                        me = StandIn(attr, G, 0)
                        bsr = cls._distribute_buffer_sizes(me, tuple(b.numel() * comm.itemsize for b in blocks))
                        for grank in range(G):
                            st = StandIn(attr, G, 0)
                            object.__setattr__(st, "_global_blocked_params", blocks)
                            sel = tuple(r == grank for _, r in bsr)
                            object.__setattr__(st, "_distributor_selector", sel)
                            kw = dict(buffer_size_ranks=bsr, communication_dtype=comm)
                            kw["group_rank" if tag == "ddp" else "comms_group_rank"] = grank
                            try:
                                cls._construct_distributed_buffers(st, **kw)
                            except Exception as e:
                                problems.append(f"{tag} {shapes} G={G}: {e!r}")
                                continue
                            gb = st._global_dist_buffer
                            cell = gb.a.itemsize
                            base = gb.data_ptr()
                            seg = gb.numel() // G
                            if gb.numel() % G or st._local_dist_buffer.numel() != seg or (st._local_dist_buffer.data_ptr() - base) // cell != grank * seg:
                                problems.append(f"{tag} {shapes} G={G}: local buffer is not segment {grank}")
                            local = [torch.split(gb, seg)[r] for r in range(G)] if seg else []
                            split = cls._split_local_dist_buffers(bsr, tuple(local)) if seg else ()
                            ranges = []
                            for i, (blk, (asz, r)) in enumerate(zip(blocks, bsr)):
                                v = st._global_dist_blocked_buffers[i]
                                lo = (v.data_ptr() - base) // cell
                                hi = lo + blk.numel() * comm.itemsize
                                slo = (split[i].data_ptr() - base) // cell
                                shi = slo + split[i].numel()
                                need = blk.numel() * comm.itemsize
                                if not (r * seg <= slo and shi <= (r + 1) * seg):
                                    problems.append(f"{tag} {shapes} G={G}: block {i} buffer outside its owner's segment")
                                if split[i].numel() % 64 or split[i].numel() < need or split[i].numel() != asz:
                                    problems.append(f"{tag} {shapes} G={G}: block {i} buffer size {split[i].numel()} (need {need})")
                                if not (slo <= lo and hi <= shi) or tuple(v.shape) != tuple(blk.shape) or v.dtype is not comm:
                                    problems.append(f"{tag} {shapes} G={G}: block {i} typed view outside its buffer / wrong shape or dtype")
                                ranges.append((slo, shi))
                            rs = sorted(ranges)
                            if any(a[1] > b[0] for a, b in zip(rs, rs[1:])):
                                problems.append(f"{tag} {shapes} G={G}: overlapping block buffers")
                            if tuple(id(x) for x in st._local_dist_blocked_buffers) != tuple(id(x) for x, s in zip(st._global_dist_blocked_buffers, sel) if s):
                                problems.append(f"{tag} {shapes} G={G}: local buffers are not the owner's blocks")
    finally:
        symx.CTX.mode = "symbolic"
    return cases, problems


def placement_jobs(tier):
    """State placement ("a block's preconditioner state exists only on its owning rank of each group"): the distributed harnesses of C06-C08 (which end with
    the placement obligations) on the layouts where ownership matters -- DDP with the group spanning the world, HSDP / HybridShard with num_trainers_per_group
    equal to and a proper divisor of the replicate size (FP32 communication, every gradient present), plus one layout per distributor with 4-byte parameters,
    2-byte communication and block sizes that are not 64-byte multiples in either dtype (owner assignment and buffer layout must agree)."""
    from checks import c06, c07, c08

    out = []
    for j in c06.jobs_for(tier):
        c = j["cfg"]
        if c.get("mixed_sizes") or (c["world"] == c["group"] and c["world"] > 1 and not c.get("presence") and c.get("comm", "FP32") == "FP32" and not c.get("communicate_params")):
            out.append(dict(j, id="ddp-" + j["id"]))
    for mod, key in ((c07, "hsdp"), (c08, "hybrid")):
        for j in mod.jobs_for(tier):
            h = j["cfg"].get(key)
            if h and (j["cfg"].get("mixed_sizes") or (h.get("comm", "FP32") == "FP32" and not j["cfg"].get("presence") and not h.get("communicate_params"))):
                out.append(dict(j, id=f"{key}-" + j["id"]))
    return out


def run(tier, seed, argv):
    from vlib import par
    from vlib.report import Report

    rep = Report("C14", tier, seed)
    rep.bounds = dict(blocks="n<=4 on <=3 ranks" if tier == "quick" else "n<=6 on <=3 ranks, n<=5 on 4 ranks", sizes=f"symbolic integers 0..{MAXSIZE} (ties included)",
                      copies=[c[0] for c in COPIES], alternative_assignment="symbolic element of ranks^n (one z3 query per path)")
    rep.assumptions = ["group sizes and block counts beyond the bound are outside the claim",
                       "tie-breaking is not prescribed: any non-increasing order with least-loaded placement is accepted",
                       "buffer layout: concrete block shapes / group sizes 1..4 / three communication dtypes, on the stand-in's byte-cell model of the int8 buffer"]
    res = par.run_jobs(jobs_for(tier), chunk=12)
    rep.absorb("assignment", res)
    pj = placement_jobs(tier)
    rep.bounds["state_placement"] = f"{len(pj)} simulated layouts: " + ", ".join(j["id"] for j in pj)
    rep.absorb("state-placement", par.run_jobs(pj, chunk=4))
    tw = par.run_jobs([dict(id="twin0", module="checks.c14", factory="make", cfg=dict(n=3, G=2, twin="not-least-loaded"))])
    rep.twin_expected = 1
    rep.twin_sat = int(any(x["status"] == "violation" for r in tw.values() for x in r["records"]))
    cases, problems = buffers_check(tier)
    rep.extra["buffer_layout_cases"] = cases
    rep.validated_traces = cases
    if problems:
        rep.extra["buffer_problems"] = problems[:5]
        rep.violations.append(dict(label="buffer-layout: " + problems[0], info=dict(signature=dict(kind="buffer-layout"), cfg={}), model={}, job="concrete"))
    return rep.finish("checks.c14")


# ------------------------------------------------------------------------------------------ replay (real code, concrete ints)
def _oracle(sizes, res, G):
    n = len(sizes)
    probs = []
    if len(res) != n:
        return [f"result has {len(res)} entries for {n} blocks"]
    al = [a for a, _ in res]
    rk = [r for _, r in res]
    for s, a in zip(sizes, al):
        if a % 64 or a < s or a - s >= 64:
            probs.append(f"size {s} aligned to {a}")
    if any(not (0 <= r < G) for r in rk):
        probs.append(f"rank outside group: {rk}")
        return probs
    loads = [sum(a for a, r in zip(al, rk) if r == g) for g in range(G)]
    ok = False
    for perm in itertools.permutations(range(n)):
        if any(al[perm[k]] < al[perm[k + 1]] for k in range(n - 1)):
            continue
        ld = [0] * G
        good = True
        for i in perm:
            if ld[rk[i]] != min(ld):
                good = False
                break
            ld[rk[i]] += al[i]
        if good:
            ok = True
            break
    if not ok:
        probs.append(f"not an LPT assignment: aligned={al} ranks={rk}")
    if n and max(loads) - min(loads) > max(al):
        probs.append(f"max-min load {max(loads) - min(loads)} > largest block {max(al)}")
    best = min(max(sum(a for a, r in zip(al, alt) if r == g) for g in range(G)) for alt in itertools.product(range(G), repeat=n)) if n else 0
    if 3 * max(loads + [0]) > 4 * best:
        probs.append(f"max load {max(loads)} > 4/3 * optimum {best}")
    return probs


def replay(record):
    info = record.get("info") or {}
    kind = (info.get("signature") or {}).get("kind")
    if kind == "buffer-layout":
        cases, problems = buffers_check_real()
        return bool(problems), f"{cases} cases on real torch: " + ("; ".join(problems[:3]) if problems else "layout relations hold")
    cfg = info["cfg"]
    if "n" not in cfg:
        # a placement job: the distributed replays (real gloo processes) of the harness it came from
        from checks import c06_replay, c07_replay, c08_replay

        mod = c07_replay if cfg.get("hsdp") else (c08_replay if cfg.get("hybrid") else c06_replay)
        return mod.replay(record)
    n, G = cfg["n"], cfg["G"]
    m = record.get("model", {})
    sizes = tuple(int(m.get(f"s{i}", 0)) for i in range(n))
    probs, outs = [], []
    for tag, mod, cname, attr in COPIES:
        cls = _cls(mod, cname)
        res = cls._distribute_buffer_sizes(StandIn(attr, G, 1), sizes)
        outs.append(res)
        probs += [f"{tag}: {p}" for p in _oracle(sizes, res, G)]
        # the assignment is a function of the sizes alone: a second distributor in the same process (after an unrelated call) gets the same answer
        again = [cls._distribute_buffer_sizes(StandIn(attr, G, 1), sizes) for _ in range(2)]
        cls._distribute_buffer_sizes(StandIn(attr, G, 0), tuple(64 * (i + 1) for i in range(n + 1)))
        again.append(cls._distribute_buffer_sizes(StandIn(attr, G, 1), sizes))
        for res2 in again:
            if res2 != res:
                probs.append(f"{tag}: a later call with the same sizes gives {res2} instead of {res}")
                probs += [f"{tag} (later call): {p}" for p in _oracle(sizes, res2, G)]
                break
    if any(o != outs[0] for o in outs[1:]):
        probs.append("the three copies disagree")
    return bool(probs), f"sizes={sizes} group={G}: " + ("; ".join(probs) if probs else f"ok {outs[0]}")


def buffers_check_real():
    """The same layout relations on real torch tensors (storage offsets in bytes)."""
    import torch

    problems, cases = [], 0
    for tag, mod, cname, attr in COPIES:
        cls = _cls(mod, cname)
        for shapes in [[(2, 3), (4,), (1, 1)], [(5,), (5,), (5,), (2, 2)], [(3, 3), (16, 2), (1,), (7,), (2, 2, 2)], [(33,)]]:
            for G in (1, 2, 3):
                for comm in (torch.float32, torch.bfloat16):
                    cases += 1
                    blocks = tuple(torch.zeros(s) for s in shapes)
                    bsr = cls._distribute_buffer_sizes(StandIn(attr, G, 0), tuple(b.numel() * comm.itemsize for b in blocks))
                    st = StandIn(attr, G, 0)
                    object.__setattr__(st, "_global_blocked_params", blocks)
                    object.__setattr__(st, "_distributor_selector", tuple(r == 0 for _, r in bsr))
                    kw = dict(buffer_size_ranks=bsr, communication_dtype=comm)
                    kw["group_rank" if tag == "ddp" else "comms_group_rank"] = 0
                    try:
                        cls._construct_distributed_buffers(st, **kw)
                    except Exception as e:
                        problems.append(f"{tag} {shapes} G={G}: buffer construction raised {e!r}"[:300])
                        continue
                    gb = st._global_dist_buffer
                    seg = gb.numel() // G
                    rng = []
                    for i, (blk, (asz, r)) in enumerate(zip(blocks, bsr)):
                        v = st._global_dist_blocked_buffers[i]
                        lo = v.storage_offset() * v.element_size()
                        hi = lo + v.numel() * v.element_size()
                        if not (r * seg <= lo and hi <= (r + 1) * seg) or tuple(v.shape) != tuple(blk.shape) or v.dtype != comm or lo % 64:
                            problems.append(f"{tag} {shapes} G={G}: block {i} view [{lo},{hi}) segment {r}")
                        rng.append((lo, lo + asz))
                    rs = sorted(rng)
                    if any(a[1] > b[0] for a, b in zip(rs, rs[1:])):
                        problems.append(f"{tag} {shapes} G={G}: overlapping buffers")
    return cases, problems
