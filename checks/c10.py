"""C10 -- matrix inverse root: every solver, root, fast path (exact-arithmetic and control-flow part).

The floating-point accuracy bound itself (a multiple of n*u*cond) is an error analysis of LAPACK and
repeated matmuls and is NOT decided.  Decided by z3 on the real matrix_functions.py over real
arithmetic (n <= 2 for the iterations, <= 3 for the fast paths):
  * dispatch on the configuration; NotImplementedError for unknown configurations, ValueError for
    non-integer roots under coupled Newton;
  * the 1x1 and diagonal fast paths equal the general (spectral) value on PSD input;
  * coupled Newton: the start is z*A_ridge with z = (p+1)/(2*|A_ridge|_F) (all eigenvalues inside the
    convergence region of the principal root), the returned pair keeps M = X^p * A_ridge, CONVERGED is
    reported only if the last computed |M-I|_inf <= tolerance and that error belongs to the returned M;
  * coupled higher-order: the start is A_ridge/trace(A_ridge), it returns only if |A_ridge X^p - I|_inf
    <= 0.1 (else raises), and restores the tf32 flag on every path.
"""
from __future__ import annotations

import itertools
import math
from fractions import Fraction

import numpy as np
import z3

from checks import mf
from vlib import symx
from vlib.symx import CTX, SymReal


def _eye(n):
    return np.array([[SymReal.const(int(i == j)) for j in range(n)] for i in range(n)], dtype=object)


def _matpow(X, p):
    R = X
    for _ in range(p - 1):
        R = np.dot(R, X)
    return R


def _norm_entries(kind_p):
    import torch

    return [e for e in torch.NORM_LOG if e[1] == kind_p]


def make_newton(cfg):
    n, p, iters = cfg["n"], cfg["root"], cfg["max_iterations"]
    twin = cfg.get("twin")
    opts = dict(query_timeout_ms=60000, no_pins=True)
    mf.install_stubs(opts)

    def fn():
        import torch
        import matrix_functions as M
        from matrix_functions import NewtonConvergenceFlag

        del torch.NORM_LOG[:]
        info = dict(signature=dict(kind="coupled-newton"), cfg=cfg)
        eps, tol = symx.hp("eps"), symx.hp("tol")
        CTX.assume(eps.n > 0)
        CTX.assume(tol.n > 0)
        A = mf.sym_matrix("a", n)
        At = mf.tens(A)
        if cfg.get("via_public"):
            # through the public entry point: every field of the configuration (symbolic tolerance, iteration limit) must reach the iteration
            from fractions import Fraction
            from matrix_functions_types import CoupledNewtonConfig

            got, orig = [], M._matrix_inverse_root_newton

            def rec(*a, **k):
                got.append(orig(*a, **k))
                return got[-1]

            M._matrix_inverse_root_newton = rec
            try:
                Xpub = M.matrix_inverse_root(At, Fraction(p), root_inv_config=CoupledNewtonConfig(max_iterations=iters, tolerance=tol), epsilon=eps)
            finally:
                M._matrix_inverse_root_newton = orig
            symx.prove("the public entry point runs the coupled Newton iteration once", len(got) == 1, info)
            X, Mm, flag, it, err = got[0]
            mf.prove_all_equal("the public entry point returns the iteration's X", Xpub.a, X.a, info)
        else:
            X, Mm, flag, it, err = M._matrix_inverse_root_newton(At, p, epsilon=eps, max_iterations=iters, tolerance=tol)
        mf.prove_all_equal("the caller's matrix is left unchanged", At.a, A, info)
        Ar = A.copy()
        for i in range(n):
            Ar[i, i] = Ar[i, i] + eps
        symx.CTX.events.append(f"iterations={it} flag={flag.name}")
        fro = _norm_entries(2)
        symx.prove("the scaling uses one Frobenius norm", len(fro) >= 1, info)
        mf.prove_all_equal("the start is scaled by the Frobenius norm of A + epsilon*I (convergence region of the principal root)", fro[0][3], Ar, info)
        nrm = fro[0][2]
        infs = _norm_entries(float("inf"))
        symx.prove("an error is computed per iteration plus one for the start", len(infs) == it + 1, info)
        # start: M0 = z * A_ridge with z = (p+1) / (2 |A_ridge|_F)
        E0 = infs[0][3]
        for i in range(n):
            for j in range(n):
                lhs = (E0[i, j] + (1 if i == j else 0)) * 2 * nrm
                symx.prove_equal(f"start M0 = (p+1)/(2|A_ridge|_F) * A_ridge [{i},{j}]", lhs, Ar[i, j] * (p + 1), info)
        # invariant of the coupled iteration on the returned pair
        Xp = _matpow(X.a, p)
        lhs = np.dot(Xp, Ar)
        if twin == "wrong-invariant":
            lhs = np.dot(Xp, A)
        mf.prove_all_equal("returned pair keeps M = X^p (A + epsilon I)", Mm.a, lhs, info)
        # the reported error is the one of the returned M
        mf.prove_all_equal("the last computed error belongs to the returned M", infs[-1][3], Mm.a - _eye(n), info)
        symx.prove_equal("returned error is the last computed one", err.a[()], infs[-1][2], info)
        last = infs[-1][2]
        if flag == NewtonConvergenceFlag.CONVERGED:
            symx.prove("CONVERGED is reported only if the last error meets the tolerance", last <= tol, info)
        else:
            symx.prove("otherwise the iteration count was exhausted above the tolerance", (last > tol) if it == iters else False, info)
        for k, e in enumerate(infs[:-1]):
            symx.prove(f"iteration {k + 1} runs only while the error exceeds the tolerance", e[2] > tol, info)
        return f"{it} iterations {flag.name}"

    return fn, opts


def make_higher(cfg):
    n, root, order, iters = cfg["n"], Fraction(cfg["root"]), cfg["order"], cfg["max_iterations"]
    opts = dict(query_timeout_ms=60000, no_pins=True)
    mf.install_stubs(opts)

    def fn():
        import torch
        import matrix_functions as M

        del torch.NORM_LOG[:]
        M.isfinite = lambda x: True  # environment: entries are finite reals
        info = dict(signature=dict(kind="coupled-higher-order"), cfg=cfg)
        eps, tol = symx.hp("eps"), symx.hp("tol")
        CTX.assume(eps.n > 0)
        CTX.assume(tol.n > 0)
        A = mf.sym_matrix("a", n)
        tf0 = cfg.get("tf32", True)
        torch.backends.cuda.matmul.allow_tf32 = tf0
        raised = None
        try:
            At = mf.tens(A)
            X, Mm, flag, it, terr = M._matrix_inverse_root_higher_order(At, root, rel_epsilon=0.0, abs_epsilon=eps, max_iterations=iters, tolerance=tol,
                                                                       order=order, disable_tf32=cfg.get("disable_tf32", True))
        except ArithmeticError as e:
            raised = e
        symx.prove("the tf32 flag is restored on every path", torch.backends.cuda.matmul.allow_tf32 == tf0, info)
        mf.prove_all_equal("the caller's matrix is left unchanged", At.a, A, info)
        Ar = A.copy()
        for i in range(n):
            Ar[i, i] = Ar[i, i] + eps
        infs = _norm_entries(float("inf"))
        vec = [e for e in infs if e[0] == "vector"]
        tr = SymReal.const(0)
        for i in range(n):
            tr = tr + Ar[i, i]
        E0 = vec[0][3]
        for i in range(n):
            for j in range(n):
                symx.prove_equal(f"start M0 = A_ridge / trace(A_ridge) [{i},{j}]", (E0[i, j] + (1 if i == j else 0)) * tr, Ar[i, j], info)
        true_err = vec[-1]
        thr = SymReal.const(0.1)  # the guard 1e-1 as the double the code compares with
        if raised is not None:
            symx.prove("the solver raises only when the residual guard |A_ridge X^p - I|_inf <= 0.1 is broken", true_err[2] > thr, info)
            symx.CTX.events.append("raised ArithmeticError")
            return "raised"
        symx.prove("a result is returned only if the residual guard holds", true_err[2] <= thr, info)
        if root.denominator == 1:
            res = np.dot(Ar, _matpow(X.a, root.numerator)) - _eye(n)
            mf.prove_all_equal("the guard is computed from the returned X: A_ridge X^p - I", true_err[3], res, info)
            symx.prove_equal("returned error is that residual", terr.a[()], true_err[2], info)
        # the stopping rule, stated over the norms actually computed: vec[j] = |M_j - I|_inf after iteration j (vec[0] the start, vec[-1] the final residual)
        errs = [e[2] for e in vec[:-1]]
        symx.prove("one error norm per iteration", len(errs) == int(it) + 1, info)
        c12, small = SymReal.const(1.2), SymReal.const(1e-3)
        last_accepted = errs[1] if len(errs) > 1 else errs[0]
        for j in range(2, len(errs)):
            prev, new = errs[j - 1], errs[j]
            symx.prove(f"iteration {j} is only started while the error exceeds the tolerance", prev > tol, info)
            stagnating = (new > prev * c12) | ((new == prev) & (prev < small)) if hasattr(new > prev, "__or__") else ((new > prev * c12) or (new == prev and prev < small))
            is_break = (flag.name == "EARLY_STOP" and j == len(errs) - 1)
            if is_break:
                symx.prove("EARLY_STOP only on divergence (new > 1.2 * previous) or stagnation (equal and below 1e-3) of consecutive, distinct iterates", stagnating, info)
            else:
                symx.prove(f"iteration {j} is accepted only when neither diverging nor stagnating", ~stagnating if hasattr(stagnating, "__invert__") else (not stagnating), info)
                last_accepted = new
        if flag.name == "CONVERGED":
            symx.prove("CONVERGED is reported only when the last accepted error is within the tolerance", last_accepted <= tol, info)
        elif flag.name == "REACHED_MAX_ITERS":
            symx.prove("REACHED_MAX_ITERS: the iteration count is the limit and the error still exceeds the tolerance", (int(it) >= iters) and True, info)
            symx.prove("REACHED_MAX_ITERS: the error still exceeds the tolerance", last_accepted > tol, info)
        symx.CTX.events.append(f"iterations={it} flag={flag.name}")
        return f"{it} iterations {flag.name}"

    return fn, opts


def make_scalar(cfg):
    root = Fraction(cfg["root"])
    opts = dict(query_timeout_ms=30000, no_pins=True)
    mf.install_stubs(opts)

    def fn():
        import matrix_functions as M
        from matrix_functions_types import EigenConfig, CoupledNewtonConfig, CoupledHigherOrderConfig

        info = dict(signature=dict(kind="scalar-fast-path"), cfg=cfg)
        eps = symx.hp("eps")
        CTX.assume(eps.n > 0)
        a = symx.var("a")
        CTX.assume(a.n >= 0, control=False)  # PSD
        conf = {"eigen": EigenConfig(), "newton": CoupledNewtonConfig(), "higher": CoupledHigherOrderConfig()}[cfg["config"]]
        A = np.empty(cfg["shape"], dtype=object)
        A.reshape(-1)[0] = a
        X = M.matrix_inverse_root(mf.tens(A), root, root_inv_config=conf, epsilon=eps)
        base = symx.root(a + eps, root.numerator) if root.numerator != 1 else a + eps
        exp = SymReal.const(1) / (base ** root.denominator)
        symx.prove("the scalar result keeps the input's shape", tuple(X.shape) == tuple(cfg["shape"]), info)
        symx.prove_equal("1x1 fast path = (a + epsilon)^(-1/r), the spectral value on PSD input", X.a.reshape(-1)[0], exp, info)
        return "ok"

    return fn, opts


def concrete_dispatch():
    import torch
    import matrix_functions as M
    from dataclasses import dataclass
    from matrix_functions_types import CoupledNewtonConfig, RootInvConfig

    @dataclass
    class Other(RootInvConfig):
        pass

    probs, n = [], 0
    symx.CTX.mode = "concrete"
    try:
        n += 1
        try:
            M.matrix_inverse_root(torch.eye(2), Fraction(2), root_inv_config=Other(), epsilon=0.5)
            probs.append("unknown configuration accepted")
        except NotImplementedError:
            pass
        n += 1
        try:
            M.matrix_inverse_root(torch.eye(2), Fraction(3, 2), root_inv_config=CoupledNewtonConfig(), epsilon=0.5)
            probs.append("non-integer root accepted by coupled Newton")
        except ValueError:
            pass
    finally:
        symx.CTX.mode = "symbolic"
    return n, probs


def jobs_for(tier):
    jobs = []
    k = 0

    def add(factory, **cfg):
        nonlocal k
        jobs.append(dict(id=f"m{k}", module="checks.c10", factory=factory, cfg=cfg))
        k += 1

    for p, it in ((1, 1), (1, 2), (2, 1), (2, 2)):
        add("make_newton", n=2, root=p, max_iterations=it)
    add("make_newton", n=1 + 1, root=2, max_iterations=0)
    add("make_newton", n=2, root=2, max_iterations=2, via_public=True)
    add("make_higher", n=2, root="1", order=2, max_iterations=1)
    add("make_higher", n=2, root="2", order=3, max_iterations=1)
    add("make_higher", n=2, root="2", order=2, max_iterations=2, tf32=False)
    add("make_higher", n=2, root="1/2", order=3, max_iterations=1, disable_tf32=False)
    add("make_higher", n=2, root="1", order=2, max_iterations=3)  # two passes of the main loop: consecutive errors are compared
    for conf, root, shape in itertools.product(("eigen", "newton", "higher"), ("2", "4", "3/2"), ((1, 1), (1,))):
        add("make_scalar", config=conf, root=root, shape=list(shape))
    if tier == "thorough":
        add("make_newton", n=2, root=3, max_iterations=1)
        add("make_higher", n=2, root="2", order=3, max_iterations=2)
        add("make_higher", n=2, root="3", order=2, max_iterations=1)
    return jobs


def make_eigen(cfg):
    """Eigendecomposition solver, with and without the stability option, on a PSD input: X = Q diag((lambda_i(A) + eps)^(-1/r)) Q^T, i.e. the matrix function
    (A + eps I)^(-1/r) of whatever orthonormal eigenbasis LAPACK returns (eigh is a stub: ascending eigenvalues bounded below by 0, resp. by eps when the ridge
    is added before the decomposition)."""
    from fractions import Fraction

    n, root, enh = cfg["n"], Fraction(cfg["root"]), cfg["enhance"]
    opts = dict(query_timeout_ms=30000, no_pins=True)
    log = mf.install_stubs(opts)

    def fn():
        import torch
        import matrix_functions as M
        from matrix_functions_types import EigenConfig

        log["eigh"].clear()
        info = dict(signature=dict(kind="eigen-solver", enhance=enh), cfg=cfg)
        eps = symx.hp("eps")
        symx.CTX.assume(eps.n > 0)
        log["floor"] = eps if enh else symx.SymReal.const(0)
        A = mf.sym_matrix("a", n)
        At = mf.tens(A, torch.float32)
        if cfg.get("direct"):
            X = M._matrix_inverse_root_eigen(At, root, epsilon=eps, enhance_stability=enh)[0]
        else:
            X = M.matrix_inverse_root(At, root, root_inv_config=EigenConfig(enhance_stability=enh, exponent_multiplier=cfg.get("exponent_multiplier", 1.0)), epsilon=eps, is_diagonal=False)
        mf.prove_all_equal("the caller's matrix is left unchanged", At.a, A, info)
        symx.prove("one eigendecomposition", len(log["eigh"]) == 1, info)
        rec = log["eigh"][0]
        Aexp = A.copy()
        if enh:
            for i in range(n):
                Aexp[i, i] = Aexp[i, i] + eps
        mf.prove_all_equal("the decomposed matrix is A (A + eps I with the stability option)", rec["A"], Aexp, info)
        L, Q = list(rec["L"]), rec["Q"]
        args = [l if enh else l + eps for l in L]  # eigenvalues of A + eps I
        D = []
        for a in args:
            base = symx.root(a, root.numerator) if root.numerator != 1 else a
            D.append(symx.SymReal.const(1) / (base ** root.denominator))
        Xs = np.empty((n, n), dtype=object)
        for i in range(n):
            for j in range(n):
                t = symx.SymReal.const(0)
                for k in range(n):
                    t = t + Q[i, k] * D[k] * Q[j, k]
                Xs[i, j] = t
        mf.prove_all_equal("X = Q diag((lambda_i(A) + eps)^(-1/r)) Q^T  (= (A + eps I)^(-1/r))", X.a, Xs, info)
        return "ok"

    return fn, opts


def eigen_jobs(tier):
    jobs = []
    k = 0
    for n in ((2, 3) if tier == "thorough" else (2,)):
        for root in (("2", "4", "3/2", "1", "3") if tier == "thorough" else ("2", "4", "3/2")):
            for enh in (False, True):
                jobs.append(dict(id=f"g{k}", module="checks.c10", factory="make_eigen", cfg=dict(n=n, root=root, enhance=enh, direct=bool(k % 2))))
                k += 1
    # a non-default exponent multiplier in the config: the caller folds it into `root`, so the routine's result for a given root does not depend on it
    for enh in (False, True):
        jobs.append(dict(id=f"g{k}", module="checks.c10", factory="make_eigen", cfg=dict(n=2, root="2", enhance=enh, direct=False, exponent_multiplier=2.0)))
        k += 1
    if tier == "quick":
        jobs.append(dict(id=f"g{k}", module="checks.c10", factory="make_eigen", cfg=dict(n=3, root="2", enhance=True, direct=False)))
    return jobs


def run(tier, seed, argv):
    from vlib import par
    from vlib.report import Report

    rep = Report("C10", tier, seed)
    jobs = jobs_for(tier)
    if argv:
        jobs = [j for j in jobs if j["id"] in argv]
    rep.bounds = dict(n="2 for the coupled iterations, 1 for the scalar path (diagonal path: C11)", newton="root 1..2, <=2 iterations (thorough: root 3 with 1 iteration; 3 iterations were tried and are beyond z3: unknown after 60 s)",
                      higher_order="order 2..3, root 1, 2, 1/2, <=2 iterations", epsilon_tolerance="symbolic > 0")
    rep.assumptions = ["NOT decided: the floating-point accuracy bound (n*u*cond), the effect of single-precision exponents, convergence speed",
                       "exact real arithmetic; norms are atoms that record their arguments; eigh/qr are environment stubs",
                       "that the scaled start lies in the convergence region of the principal root is the cited theorem (Guo-Higham / Lakic); what is proved is that the code scales by the norm / trace of A + epsilon*I"]
    rep.absorb("solvers", par.run_jobs(jobs, chunk=8))
    ej = eigen_jobs(tier)
    rep.bounds["eigen_solver"] = f"{len(ej)} configurations: n<=3, roots 2, 4, 3/2 (thorough: 1, 3), stability option off/on, PSD spectrum symbolic"
    rep.absorb("eigen-solver", par.run_jobs(ej, chunk=8))
    tw = par.run_jobs([dict(id="twin0", module="checks.c10", factory="make_newton", cfg=dict(n=2, root=2, max_iterations=1, twin="wrong-invariant"))])
    rep.twin_expected = 1
    rep.twin_sat = int(any(x["status"] == "violation" for r in tw.values() for x in r["records"]))
    n, probs = concrete_dispatch()
    rep.extra["dispatch_cases"] = n
    rep.validated_traces = n
    if probs:
        rep.violations.append(dict(label=f"dispatch: {probs[0]}", info=dict(signature=dict(kind="dispatch"), cfg={}), model={}, job="concrete"))
    return rep.finish("checks.c10")


def replay(record):
    """Real torch, float64: compare every solver against the spectral oracle on the witness matrix (and scaled variants)."""
    import torch
    import matrix_functions as M
    from matrix_functions_types import CoupledHigherOrderConfig, CoupledNewtonConfig, EigenConfig

    info = record.get("info") or {}
    kind = (info.get("signature") or {}).get("kind")
    cfg = info.get("cfg", {})
    m = record.get("model", {})

    def val(k, d=0.0):
        v = m.get(k, d)
        return v[0] / v[1] if isinstance(v, list) else float(v)

    probs = []
    if kind == "dispatch":
        n, pr = concrete_dispatch_real()
        return bool(pr), str(pr or "ok")
    eps = max(val("eps", 0.5), 1e-9)
    if kind == "scalar-fast-path":
        a = abs(val("a", 1.0))
        root = Fraction(cfg["root"])
        conf = {"eigen": EigenConfig(), "newton": CoupledNewtonConfig(), "higher": CoupledHigherOrderConfig()}[cfg["config"]]
        X = M.matrix_inverse_root(torch.tensor(a, dtype=torch.float64).reshape(cfg["shape"]), root, root_inv_config=conf, epsilon=eps)
        exp = (a + eps) ** (-1.0 / float(root))
        if tuple(X.shape) != tuple(cfg["shape"]) or abs(X.reshape(-1)[0].item() - exp) > 1e-9 * (1 + abs(exp)):
            probs.append(f"scalar path gives {X.tolist()} expected {exp}")
        return bool(probs), f"a={a} eps={eps}: {probs or 'ok'}"
    n = cfg["n"]
    base = torch.tensor([[val(f"a_{min(i, j)}_{max(i, j)}") for j in range(n)] for i in range(n)], dtype=torch.float64)
    cands = [base @ base.T, base @ base.T * 1e-3, torch.diag(torch.tensor([1.0] + [0.0] * (n - 1), dtype=torch.float64)), torch.zeros(n, n, dtype=torch.float64)]
    epss = [eps, 1.5, 1e-2]
    if kind == "eigen-solver":
        root = Fraction(cfg["root"])
        enh = cfg["enhance"]
        g = torch.Generator().manual_seed(3)
        for s_ in (1.0, 1e-3, 1e-6):  # PSD matrices across scales, rank-deficient included
            B = torch.randn(n, n, dtype=torch.float64, generator=g)
            cands += [B @ B.T * s_, (B[:, :1] @ B[:, :1].T) * s_]
        for A, e in itertools.product(cands, epss + [1e-6]):
            for dt, rtol in ((torch.float64, 1e-8), (torch.float32, 2e-3)):
                X = M.matrix_inverse_root(A.to(dt), root, root_inv_config=EigenConfig(enhance_stability=enh, exponent_multiplier=cfg.get("exponent_multiplier", 1.0)), epsilon=e)
                lam, Q = torch.linalg.eigh(A + e * torch.eye(n, dtype=torch.float64))
                ref = Q @ torch.diag(lam.clamp(min=e) ** (-1.0 / float(root))) @ Q.T
                # relative to the result's scale; float32 additionally loses cond * 1e-7
                cond = (lam.max().item() + e) / e
                tol = rtol * max(1.0, cond * (1e-7 if dt is torch.float32 else 1e-15) / rtol) * ref.abs().max().item()
                if cond * (1e-7 if dt is torch.float32 else 1e-15) > 1e-2:
                    continue
                if not torch.isfinite(X).all() or (X.to(torch.float64) - ref).abs().max().item() > tol:
                    probs.append(f"eigen solver (enhance_stability={enh}, {dt}) differs from (A+eps I)^(-1/{root}) for A={A.tolist()} eps={e}: max err {(X.to(torch.float64) - ref).abs().max().item():.3e} vs scale {ref.abs().max().item():.3e}")
                    break
            if probs:
                break
    elif kind == "coupled-newton":
        p = cfg["root"]
        if cfg.get("via_public"):
            # the configuration's fields must govern the iteration run by the public entry point: stopping relations at several tolerances / limits
            from matrix_functions_types import CoupledNewtonConfig

            got, orig = [], M._matrix_inverse_root_newton

            def rec(*a, **k):
                got.append(orig(*a, **k))
                return got[-1]

            M._matrix_inverse_root_newton = rec
            try:
                for A, e, tol_, mi in itertools.product(cands[:6], epss[:2], (1e-2, 1e-6, 1e-9, 1e-13), (3, 200)):
                    del got[:]
                    A0 = A.clone()
                    M.matrix_inverse_root(A, Fraction(p), root_inv_config=CoupledNewtonConfig(max_iterations=mi, tolerance=tol_), epsilon=e)
                    if len(got) != 1:
                        probs.append("the public entry point does not run the coupled Newton iteration exactly once")
                        break
                    _, _, flag, it, err = got[0]
                    err = float(err)
                    if not torch.equal(A, A0):
                        probs.append(f"the caller's matrix was modified (A={A0.tolist()} eps={e})")
                        break
                    if flag == M.NewtonConvergenceFlag.CONVERGED and not err <= tol_:
                        probs.append(f"CoupledNewtonConfig(tolerance={tol_}, max_iterations={mi}): CONVERGED reported with error {err:.3e} above the configured tolerance (A={A0.tolist()} eps={e})")
                        break
                    if flag != M.NewtonConvergenceFlag.CONVERGED and (int(it) < mi or err <= tol_):
                        probs.append(f"CoupledNewtonConfig(tolerance={tol_}, max_iterations={mi}): stopped after {int(it)} iterations with error {err:.3e} and flag {flag.name} (A={A0.tolist()} eps={e})")
                        break
                    if int(it) > mi:
                        probs.append(f"CoupledNewtonConfig(max_iterations={mi}): {int(it)} iterations run")
                        break
            finally:
                M._matrix_inverse_root_newton = orig
        for A, e in itertools.product(cands, epss):
            X, Mm, flag, it, err = M._matrix_inverse_root_newton(A, p, epsilon=e, max_iterations=200, tolerance=1e-10)
            lam, Q = torch.linalg.eigh(A + e * torch.eye(n, dtype=torch.float64))
            ref = Q @ torch.diag(lam ** (-1.0 / p)) @ Q.T
            if flag == M.NewtonConvergenceFlag.CONVERGED and not torch.allclose(X, ref, rtol=1e-6, atol=1e-8):
                probs.append(f"coupled Newton reports CONVERGED but X differs from (A+eps I)^(-1/{p}) for A={A.tolist()} eps={e}: max err {(X - ref).abs().max().item():.3e}")
                break
            if not torch.isfinite(X).all() or flag != M.NewtonConvergenceFlag.CONVERGED:
                probs.append(f"coupled Newton does not converge for PSD A={A.tolist()} eps={e} (flag {flag.name})")
                break
    else:
        root = Fraction(cfg["root"])
        g3 = torch.Generator().manual_seed(7)
        for c_ in (1e2, 1e3, 1e4):  # moderately ill-conditioned inputs: several passes of the main loop
            Qc, _ = torch.linalg.qr(torch.randn(n, n, dtype=torch.float64, generator=g3))
            cands.append(Qc @ torch.diag(torch.logspace(0, -math.log10(c_), n, dtype=torch.float64)) @ Qc.T)
        for A, e in itertools.product(cands, epss):
            try:
                X, Mm, flag, it, terr = M._matrix_inverse_root_higher_order(A, root, abs_epsilon=e, max_iterations=100, tolerance=1e-12, order=cfg["order"])
            except ArithmeticError:
                continue
            # the stopping rule against an independent replay of the documented iteration (same flag, same number of iterations)
            if root.denominator == 1:
                Xr, fr, itr = higher_order_reference(A, root, e, 100, 1e-12, cfg["order"])
                if flag.name != fr or int(it) != itr:
                    probs.append(f"higher-order solver stops with {flag.name} after {it} iterations; the documented rule gives {fr} after {itr} for A={A.tolist()} eps={e}")
                    break
            lam, Q = torch.linalg.eigh(A + e * torch.eye(n, dtype=torch.float64))
            ref = Q @ torch.diag(lam ** (-1.0 / float(root))) @ Q.T
            if not torch.allclose(X, ref, rtol=1e-3, atol=1e-5):
                probs.append(f"higher-order solver returns a result far from the spectral value for A={A.tolist()} eps={e}")
                break
    return bool(probs), f"{kind} n={n}: {probs or 'agrees with the spectral oracle on the witness family'}"


def higher_order_reference(A, root, eps, max_iterations, tolerance, order):
    """The documented coupled higher-order iteration (Lakic), written out independently in float64: returns (X before the final powering, flag name, iterations)."""
    import torch

    p, q = root.numerator, root.denominator
    n = A.shape[0]
    b = [1.0]
    num, den = 1, 1
    for i in range(1, order):
        num *= 1 + (i - 1) * p
        den *= i * p
        b.append(num / den)
    I = torch.eye(n, dtype=torch.float64)
    Ar = A + eps * I
    z = 1.0 / torch.trace(Ar).item()
    s_ = -1.0 / p
    X = (z ** (-s_)) * I
    Mm = z * Ar
    Mp = Mm * s_ + I * (1 - s_)
    X = X @ Mp
    Mm = torch.linalg.matrix_power(Mp, p) @ Mm
    err = (Mm - I).abs().max().item()
    it = 1
    flag = None
    while err > tolerance and it < max_iterations:
        it += 1
        base = I - Mm
        Mp = base * b[order - 1] + I * b[order - 2]
        for i in reversed(range(order - 2)):
            Mp = I * b[i] + Mp @ base
        X = X @ Mp
        Mm = torch.linalg.matrix_power(Mp, p) @ Mm
        new = (Mm - I).abs().max().item()
        if new > err * 1.2 or (new == err and err < 1e-3):
            flag = "EARLY_STOP"
            break
        err = new
    if flag is None:
        flag = "REACHED_MAX_ITERS" if err > tolerance else "CONVERGED"
    return X, flag, it


def concrete_dispatch_real():
    import torch
    import matrix_functions as M
    from dataclasses import dataclass
    from matrix_functions_types import CoupledNewtonConfig, RootInvConfig

    @dataclass
    class Other(RootInvConfig):
        pass

    probs = []
    try:
        M.matrix_inverse_root(torch.eye(2), Fraction(2), root_inv_config=Other(), epsilon=0.5)
        probs.append("unknown configuration accepted")
    except NotImplementedError:
        pass
    try:
        M.matrix_inverse_root(torch.eye(2), Fraction(3, 2), root_inv_config=CoupledNewtonConfig(), epsilon=0.5)
        probs.append("non-integer root accepted by coupled Newton")
    except ValueError:
        pass
    return 2, probs
