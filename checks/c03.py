"""C03 -- eigenvalue-corrected Shampoo (SOAP) is Adam run in a valid factor eigenbasis.

The real EigenvalueCorrectedShampooPreconditionerList inside the real optimizer runs on the
stand-in against the SOAP reference model: `matrix_eigenvectors` is a recording stub whose contract
is orthonormality, so "stored bases are valid" reduces to: the stored basis changes only at
schedule steps and is exactly what the routine returned for the current accumulated factor matrix
(and, for QR, the previously stored basis as estimate); the corrected eigenvalues receive the
squared gradient rotated by the NEW basis every step; the direction is rotate-back(rotated
filtered gradient / (acc/bias_correction + eps)^(1/root)); before a basis exists the same formula in
original coordinates; ignored dims are never rotated.  dtype pairs are tags with torch's mismatch
rules for matmul (this is what exposes a QR refresh that mixes dtypes).
"""
from __future__ import annotations

import itertools

from checks import c01
from vlib import optharness as H


def make(cfg):
    return c01.make(cfg)


def make_diag_flag(cfg):
    """`check_diagonal` decides whether a factor is decomposed at all (a "diagonal" factor gets the identity as its basis): it must answer True exactly
    when every off-diagonal entry is zero -- for every scale of the entries."""
    n = cfg["n"]

    def fn():
        import numpy as np
        import torch
        import z3
        import matrix_functions as M
        from checks import mf
        from vlib import symx

        info = dict(signature=dict(kind="check-diagonal"), cfg=cfg)
        A = mf.sym_matrix("a", n, symmetric=cfg.get("symmetric", True))
        r = M.check_diagonal(mf.tens(A, torch.float32))
        off = [A[i, j].n for i in range(n) for j in range(n) if i != j]
        symx.CTX.events.append(f"check_diagonal -> {bool(r)}")
        if bool(r):
            symx.prove("a matrix reported diagonal has no non-zero off-diagonal entry", z3.And(*[x == 0 for x in off]) if off else True, info)
        else:
            symx.prove("a matrix reported non-diagonal has a non-zero off-diagonal entry", z3.Or(*[x != 0 for x in off]) if off else False, info)
        return "diag" if bool(r) else "dense"

    return fn, dict(query_timeout_ms=20000, no_pins=True)


def check_diagonal_real():
    """Real torch: exact zero test at every scale (float32 and float64)."""
    import torch
    import matrix_functions as M

    probs, n = [], 0
    for dt in (torch.float32, torch.float64):
        for scale in (1.0, 1e-5, 1e-9, 1e-20, 1e5):
            for size in (2, 3):
                D = torch.diag(torch.arange(1, size + 1, dtype=dt)) * scale
                E = D.clone()
                E[0, size - 1] = scale * 0.5
                E[size - 1, 0] = scale * 0.5
                n += 2
                if not M.check_diagonal(D):
                    probs.append(f"diagonal matrix at scale {scale} ({dt}) reported non-diagonal")
                if M.check_diagonal(E):
                    probs.append(f"matrix with off-diagonal entries {scale * 0.5} ({dt}) reported diagonal")
    return n, probs


def jobs_for(tier):
    jobs = []
    n = 0

    def add(**kw):
        nonlocal n
        kw2 = dict(assume_generic=True)
        kw2.update(kw)
        jobs.append(dict(id=f"s{n}", module="checks.c03", factory="make", cfg=c01.base_cfg(tier=tier, **kw2)))
        n += 1

    for prec in ("soap_eigh", "soap_qr"):
        # basis first computed at step 2, stale at step 3 (pf=2), all step-logic options pairwise
        for g, nes, bc, dec in ((None, False, True, True), ("adam", True, True, False), ("sgd", True, False, True), ("adagrad", False, False, False)):
            add(precond=prec, params=[(2, 3)], mpd=2, merge=False, graft=g, nesterov=nes, bias_corr=bc, decoupled=dec, pf=2, sps=2, T=4, rebase=True)
        # all equality regimes once (beta2 = 1, beta1 = 0, ...)
        add(precond=prec, params=[(2, 2)], mpd=2, merge=False, graft=None, nesterov=False, bias_corr=True, decoupled=True, pf=1, sps=1, T=2, assume_generic=False)
        # order-3 block: rotate / rotate-back pairing; ignored dims; inverse-root override
        add(precond=prec, params=[(2, 2, 2)], mpd=2, merge=False, graft=None, nesterov=False, bias_corr=True, decoupled=True, pf=1, sps=1, T=2, fixed=dict(wd=0, mom=0, b1=0))
        add(precond=prec, params=[(2, 3)], mpd=3, merge=False, graft="adam", nesterov=False, bias_corr=True, decoupled=True, pf=1, sps=1, T=2, rebase=True, ignored_dims=[0], fixed=dict(mom=0))
        add(precond=prec, params=[(2, 3)], mpd=3, merge=False, graft=None, nesterov=False, bias_corr=True, decoupled=True, pf=1, sps=1, T=2, rebase=True, ignored_dims=[0, 1], fixed=dict(mom=0))
        add(precond=prec, params=[(2, 2)], mpd=2, merge=False, graft=None, nesterov=False, bias_corr=False, decoupled=True, pf=1, sps=1, T=2, rebase=True, inv_root_override=4, fixed=dict(mom=0, wd=0))
        # blocks that never get a basis (every dim ignored) or miss the refresh, with grafting on: original coordinates + norm transfer
        add(precond=prec, params=[(2, 3)], mpd=3, merge=False, graft="adagrad", nesterov=False, bias_corr=True, decoupled=True, pf=1, sps=1, T=2, rebase=True, ignored_dims=[0, 1], fixed=dict(mom=0))
        add(precond=prec, params=[(3,), (2, 2)], mpd=3, merge=False, graft="sgd", nesterov=False, bias_corr=True, decoupled=True, pf=1, sps=1, T=2, rebase=True, ignored_dims=[0], fixed=dict(mom=0))
        add(precond=prec, params=[(2, 2), (2, 2)], mpd=2, merge=False, graft="sgd", nesterov=False, bias_corr=True, decoupled=True, pf=2, sps=2, T=3, rebase=True, presence="symbolic", fixed=dict(mom=0, wd=0))
        # absent gradients: a block that misses the first refresh has no basis yet
        add(precond=prec, params=[(2, 2), (2, 2)], mpd=2, merge=False, graft="rmsprop", nesterov=False, bias_corr=True, decoupled=True, pf=1, sps=1, T=3, rebase=True, presence="symbolic", fixed=dict(mom=0, wd=0))
        # inductive step: arbitrary re-based state AND arbitrary step number k (symbolic integer): refresh schedule, both bias corrections (power atoms
        # with a symbolic exponent) and "basis already exists" decided for every k at once
        add(precond=prec, params=[(2, 2)], mpd=2, merge=False, graft="adam", nesterov=True, bias_corr=True, decoupled=True, pf=3, sps=4, T=3, rebase=True, symbolic_step=True)
        add(precond=prec, params=[(2, 2)], mpd=2, merge=False, graft=None, nesterov=False, bias_corr=True, decoupled=False, pf=2, sps=2, T=2, rebase=True, symbolic_step=True,
            fixed=dict(mom=0))
        # dtype pairs: the stored basis has the parameter's dtype, the factor the preconditioner's
        for pd, fd in (("float32", "float32"), ("bfloat16", "float32"), ("float32", "float64"), ("float64", "float64")):
            add(precond=prec, params=[(2, 2)], mpd=2, merge=False, graft=None, nesterov=False, bias_corr=True, decoupled=True, pf=1, sps=1, T=3, rebase=True,
                pdtype=pd, fdtype=fd, fixed=dict(mom=0, wd=0, b1=0))
    if tier == "thorough":
        for prec, g, nes, bc, dec in itertools.product(("soap_eigh", "soap_qr"), (None, "sgd", "adagrad", "rmsprop", "adam"), (False, True), (False, True), (False, True)):
            add(precond=prec, params=[(2, 3)], mpd=2, merge=False, graft=g, nesterov=nes, bias_corr=bc, decoupled=dec, pf=2, sps=2, T=4, rebase=True)
    return jobs


def run(tier, seed, argv):
    from vlib import par
    from vlib.report import Report

    rep = Report("C03", tier, seed)
    jobs = jobs_for(tier)
    # seeded sample of the option product (graft x nesterov x bias correction x decoupled x layout x schedule x dtype pair x ignored dims x presence)
    jobs += [dict(id=f"r{i}", module="checks.c03", factory="make", cfg=c)
             for i, c in enumerate(c01.random_cfgs(seed, 8 if tier == "quick" else 300, precond=("soap_eigh", "soap_qr"), tier=tier))]
    if argv:
        jobs = [j for j in jobs if j["id"] in argv]
    rep.bounds = dict(configs=len(jobs), methods=["eigh", "QR"], steps="T<=4 re-based", shapes="<=8 elements, order 1..3 blocks", dtype_pairs="float32/float32, bfloat16/float32, float32/float64, float64/float64")
    rep.assumptions = ["matrix_eigenvectors is a recording stub returning a fresh matrix (contract: orthonormal, hence non-zero); the routine itself is C12's subject",
                       "real arithmetic; dtypes are tags with torch's promotion / mismatch rules for the operations used", "generic equality regime except one all-regime job per method"]
    rep.validate_standin(6 if tier == "quick" else 24)
    rep.absorb("soap-reference", par.run_jobs(jobs, chunk=6), soft=lambda j: j.startswith("r"))
    # the diagonality flag that short-circuits the basis computation (the optimizer-level runs follow the non-diagonal side of it only)
    dj = [dict(id=f"k{i}", module="checks.c03", factory="make_diag_flag", cfg=dict(n=n_, symmetric=sym)) for i, (n_, sym) in enumerate(((2, True), (3, True), (2, False)))]
    rep.absorb("diagonality-flag", par.run_jobs(dj, chunk=8))
    nreal, preal = check_diagonal_real_in_subprocess()
    rep.extra["check_diagonal_real_cases"] = nreal
    if preal:
        rep.violations.append(dict(label=f"check_diagonal on the real build: {preal[0]}", info=dict(signature=dict(kind="check-diagonal-real"), cfg={}), model={}, job="concrete"))
    return rep.finish("checks.c03")


def check_diagonal_real_in_subprocess():
    import json
    import os
    import subprocess
    from vlib.report import PY, ROOT

    env = dict(os.environ)
    env["PYTHONPATH"] = f"{ROOT}:/repo"
    env["OMP_NUM_THREADS"] = "1"
    p = subprocess.run([PY, "-c", "import json, logging; logging.disable(50); from checks import c03; print(json.dumps(c03.check_diagonal_real()))"], env=env, capture_output=True, text=True, timeout=300)
    try:
        n, probs = json.loads(p.stdout.strip().splitlines()[-1])
        return n, probs
    except Exception:
        return 0, [f"could not run: {(p.stderr or '')[-200:]}"]


def replay(record):
    kind = ((record.get("info") or {}).get("signature") or {}).get("kind")
    if kind in ("check-diagonal", "check-diagonal-real"):
        n, probs = check_diagonal_real()
        return bool(probs), f"{n} matrices on the real build: {probs[:2] or 'exact zero test at every scale'}"
    return H.replay_record(record, make)
