"""C03 -- eigenvalue-corrected Shampoo (SOAP) is Adam run in a valid factor eigenbasis.

The real EigenvalueCorrectedShampooPreconditionerList inside the real optimizer runs on the
stand-in against the SOAP reference model: `matrix_eigenvectors` is a recording stub whose contract
is orthonormality, so "stored bases are valid" reduces to: the stored basis changes only at
schedule steps and is exactly what the routine returned for the current accumulated factor matrix
(and, for QR, the previously stored basis as estimate); the corrected eigenvalues receive the
squared gradient rotated by the NEW basis every step; the direction is rotate-back(rotated
filtered gradient / (acc/bias_correction + eps)^(1/root)); before a basis exists the same formula in
original coordinates; ignored dims are never rotated.  dtype pairs are tags with torch's mismatch
rules for matmul (this is what exposes a QR refresh that mixes dtypes).
"""
from __future__ import annotations

import itertools

from checks import c01
from vlib import optharness as H


def make(cfg):
    return c01.make(cfg)


def jobs_for(tier):
    jobs = []
    n = 0

    def add(**kw):
        nonlocal n
        kw2 = dict(assume_generic=True)
        kw2.update(kw)
        jobs.append(dict(id=f"s{n}", module="checks.c03", factory="make", cfg=c01.base_cfg(tier=tier, **kw2)))
        n += 1

    for prec in ("soap_eigh", "soap_qr"):
        # basis first computed at step 2, stale at step 3 (pf=2), all step-logic options pairwise
        for g, nes, bc, dec in ((None, False, True, True), ("adam", True, True, False), ("sgd", True, False, True), ("adagrad", False, False, False)):
            add(precond=prec, params=[(2, 3)], mpd=2, merge=False, graft=g, nesterov=nes, bias_corr=bc, decoupled=dec, pf=2, sps=2, T=4, rebase=True)
        # all equality regimes once (beta2 = 1, beta1 = 0, ...)
        add(precond=prec, params=[(2, 2)], mpd=2, merge=False, graft=None, nesterov=False, bias_corr=True, decoupled=True, pf=1, sps=1, T=2, assume_generic=False)
        # order-3 block: rotate / rotate-back pairing; ignored dims; inverse-root override
        add(precond=prec, params=[(2, 2, 2)], mpd=2, merge=False, graft=None, nesterov=False, bias_corr=True, decoupled=True, pf=1, sps=1, T=2, fixed=dict(wd=0, mom=0, b1=0))
        add(precond=prec, params=[(2, 3)], mpd=3, merge=False, graft="adam", nesterov=False, bias_corr=True, decoupled=True, pf=1, sps=1, T=2, rebase=True, ignored_dims=[0], fixed=dict(mom=0))
        add(precond=prec, params=[(2, 3)], mpd=3, merge=False, graft=None, nesterov=False, bias_corr=True, decoupled=True, pf=1, sps=1, T=2, rebase=True, ignored_dims=[0, 1], fixed=dict(mom=0))
        add(precond=prec, params=[(2, 2)], mpd=2, merge=False, graft=None, nesterov=False, bias_corr=False, decoupled=True, pf=1, sps=1, T=2, rebase=True, inv_root_override=4, fixed=dict(mom=0, wd=0))
        # blocks that never get a basis (every dim ignored) or miss the refresh, with grafting on: original coordinates + norm transfer
        add(precond=prec, params=[(2, 3)], mpd=3, merge=False, graft="adagrad", nesterov=False, bias_corr=True, decoupled=True, pf=1, sps=1, T=2, rebase=True, ignored_dims=[0, 1], fixed=dict(mom=0))
        add(precond=prec, params=[(3,), (2, 2)], mpd=3, merge=False, graft="sgd", nesterov=False, bias_corr=True, decoupled=True, pf=1, sps=1, T=2, rebase=True, ignored_dims=[0], fixed=dict(mom=0))
        add(precond=prec, params=[(2, 2), (2, 2)], mpd=2, merge=False, graft="sgd", nesterov=False, bias_corr=True, decoupled=True, pf=2, sps=2, T=3, rebase=True, presence="symbolic", fixed=dict(mom=0, wd=0))
        # absent gradients: a block that misses the first refresh has no basis yet
        add(precond=prec, params=[(2, 2), (2, 2)], mpd=2, merge=False, graft="rmsprop", nesterov=False, bias_corr=True, decoupled=True, pf=1, sps=1, T=3, rebase=True, presence="symbolic", fixed=dict(mom=0, wd=0))
        # dtype pairs: the stored basis has the parameter's dtype, the factor the preconditioner's
        for pd, fd in (("float32", "float32"), ("bfloat16", "float32"), ("float32", "float64"), ("float64", "float64")):
            add(precond=prec, params=[(2, 2)], mpd=2, merge=False, graft=None, nesterov=False, bias_corr=True, decoupled=True, pf=1, sps=1, T=3, rebase=True,
                pdtype=pd, fdtype=fd, fixed=dict(mom=0, wd=0, b1=0))
    if tier == "thorough":
        for prec, g, nes, bc, dec in itertools.product(("soap_eigh", "soap_qr"), (None, "sgd", "adagrad", "rmsprop", "adam"), (False, True), (False, True), (False, True)):
            add(precond=prec, params=[(2, 3)], mpd=2, merge=False, graft=g, nesterov=nes, bias_corr=bc, decoupled=dec, pf=2, sps=2, T=4, rebase=True)
    return jobs


def run(tier, seed, argv):
    from vlib import par
    from vlib.report import Report

    rep = Report("C03", tier, seed)
    jobs = jobs_for(tier)
    # seeded sample of the option product (graft x nesterov x bias correction x decoupled x layout x schedule x dtype pair x ignored dims x presence)
    jobs += [dict(id=f"r{i}", module="checks.c03", factory="make", cfg=c)
             for i, c in enumerate(c01.random_cfgs(seed, 8 if tier == "quick" else 300, precond=("soap_eigh", "soap_qr"), tier=tier))]
    if argv:
        jobs = [j for j in jobs if j["id"] in argv]
    rep.bounds = dict(configs=len(jobs), methods=["eigh", "QR"], steps="T<=4 re-based", shapes="<=8 elements, order 1..3 blocks", dtype_pairs="float32/float32, bfloat16/float32, float32/float64, float64/float64")
    rep.assumptions = ["matrix_eigenvectors is a recording stub returning a fresh matrix (contract: orthonormal, hence non-zero); the routine itself is C12's subject",
                       "real arithmetic; dtypes are tags with torch's promotion / mismatch rules for the operations used", "generic equality regime except one all-regime job per method"]
    rep.validate_standin(6 if tier == "quick" else 24)
    rep.absorb("soap-reference", par.run_jobs(jobs, chunk=6), soft=lambda j: j.startswith("r"))
    return rep.finish("checks.c03")


def replay(record):
    return H.replay_record(record, make)
