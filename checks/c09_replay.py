"""Replay of C09 counterexamples in the DDP (DTensor-state) layout on the real torch build: one OS process per rank (gloo, CPU); every rank runs the
uninterrupted optimizer A and, from the stop step on, a freshly constructed optimizer B that loaded A's distributed_state_dict(); both step with the same
gradients (two all-gathers per step on every rank, in the same order) and must agree on parameters and on every state tensor."""
from __future__ import annotations

import copy
import json
import os
import subprocess
import sys
import tempfile

from checks.c06_replay import _vals, _build, _grads


def _state(opt, params):
    out = []
    for pi, p in enumerate(params):
        def walk(prefix, x):
            import torch

            if isinstance(x, torch.Tensor):
                t = x.to_local() if type(x).__name__ == "DTensor" else x
                out.append((pi, prefix, t.detach().to(torch.float64).reshape(-1).tolist()))
            elif isinstance(x, dict):
                for k, v in x.items():
                    walk(f"{prefix}/{k}", v)
            elif isinstance(x, (list, tuple)):
                for i, v in enumerate(x):
                    walk(f"{prefix}/{i}", v)
            elif hasattr(x, "__dict__") and not callable(x):
                for k, v in vars(x).items():
                    walk(f"{prefix}.{k}", v)

        walk("", opt.state[p])
    return out


def worker(rank, world, cfgfile, initfile, outfile):
    import torch
    import torch.distributed as dist
    from datetime import timedelta
    from distributed_shampoo.shampoo_types import DDPShampooConfig

    data = json.load(open(cfgfile))
    cfg, vals = data["cfg"], data["vals"]
    dist.init_process_group("gloo", init_method=f"file://{initfile}", rank=rank, world_size=world, timeout=timedelta(seconds=data["timeout"]))
    mk = lambda: DDPShampooConfig(num_trainers_per_group=cfg["group"], communicate_params=cfg.get("communicate_params", False))  # noqa: E731
    pa, A = _build(cfg, vals, mk())
    named = lambda ps: iter([(f"p{i}", p) for i, p in enumerate(ps)])  # noqa: E731
    T, stop = cfg["T"], cfg["stop"]
    problems = []
    for k in range(1, stop + 1):
        for p, g in zip(pa, _grads(cfg, vals, k)):
            p.grad = g
        A.step()
    sd = copy.deepcopy(A.distributed_state_dict(key_to_param=named(pa)))
    pb = [torch.nn.Parameter(p.detach().clone()) for p in pa]
    _, B = _build(cfg, vals, mk(), given_params=pb)
    try:
        B.load_distributed_state_dict(sd, key_to_param=named(pb))
    except Exception as e:
        problems.append(f"rank {rank}: the optimizer's own DDP state dict does not load back: {type(e).__name__}: {e}"[:300])
    if not problems:
        for k in range(stop + 1, T + 1):
            gs = _grads(cfg, vals, k)
            for p, q, g in zip(pa, pb, gs):
                p.grad = g
                q.grad = None if g is None else g.clone()
            A.step()
            B.step()
            for i, (p, q) in enumerate(zip(pa, pb)):
                if not torch.allclose(p.detach(), q.detach(), rtol=1e-9, atol=1e-12):
                    problems.append(f"rank {rank}: parameter {i} differs after resume at step {k} by {(p - q).abs().max().item():.3e}")
            sa, sb = _state(A, pa), _state(B, pb)
            if [(x[0], x[1]) for x in sa] != [(x[0], x[1]) for x in sb]:
                problems.append(f"rank {rank}: different sets of state tensors after resume at step {k}")
            else:
                for (pi, name, va), (_, _, vb) in zip(sa, sb):
                    if len(va) != len(vb) or any(abs(x - y) > 1e-9 * (1 + abs(x)) for x, y in zip(va, vb)):
                        problems.append(f"rank {rank}: state {name} of parameter {pi} differs after resume at step {k}")
                        break
            if problems:
                break
    json.dump(problems[:5], open(outfile, "w"))
    dist.destroy_process_group()


def replay(record):
    info = record.get("info") or {}
    cfg = info["cfg"]
    world = cfg["world"]
    root = os.path.dirname(os.path.dirname(os.path.abspath(__file__)))
    all_problems = []
    for attempt, vals in enumerate((_vals(record), {})):  # the witness values, then the harness' generic default values
        d = tempfile.mkdtemp(prefix="c09replay")
        cfgfile = os.path.join(d, "cfg.json")
        json.dump(dict(cfg=cfg, vals=vals, timeout=20), open(cfgfile, "w"))
        env = dict(os.environ)
        env["PYTHONPATH"] = f"{root}:/repo"
        env["OMP_NUM_THREADS"] = "1"
        procs = [subprocess.Popen([sys.executable, "-m", "checks.c09_replay", "worker", str(r), str(world), cfgfile, os.path.join(d, "init"), os.path.join(d, f"out{r}.json")],
                                  env=env, stdout=subprocess.PIPE, stderr=subprocess.PIPE, text=True) for r in range(world)]
        for r, p in enumerate(procs):
            try:
                p.wait(timeout=90)
            except subprocess.TimeoutExpired:
                p.kill()
                all_problems.append(f"rank {r} hung")
        for r, p in enumerate(procs):
            f = os.path.join(d, f"out{r}.json")
            if os.path.exists(f):
                all_problems += json.load(open(f))
            elif p.returncode not in (0, None):
                err = (p.stderr.read() or "").strip().splitlines()
                all_problems.append(f"rank {r} failed: {err[-1] if err else p.returncode}"[:300])
        import shutil

        shutil.rmtree(d, ignore_errors=True)
        if all_problems:
            break
    return bool(all_problems), f"real gloo, world {world}, stop {cfg['stop']}: " + ("; ".join(all_problems[:3]) if all_problems else "resumed and uninterrupted runs agree on every rank")


if __name__ == "__main__":
    if sys.argv[1] == "worker":
        import logging

        logging.disable(logging.CRITICAL)
        worker(int(sys.argv[2]), int(sys.argv[3]), sys.argv[4], sys.argv[5], sys.argv[6])
