"""Shared harnesses for C10 / C11 / C12: the real matrix_functions.py on the symbolic stand-in.

`torch.linalg.eigh` / `torch.linalg.qr` are environment stubs (LAPACK's contract): eigh returns
fresh (L ascending, Q); qr returns fresh (Q, R upper triangular).  Everything around them -- shifts,
epsilon, powers, dispatch, iterations, stop rules, orderings, flags, error guards -- is the
repository's code, executed symbolically; obligations are z3 queries per path.
"""
from __future__ import annotations

import itertools
from collections import namedtuple
from fractions import Fraction

import numpy as np
import z3

from vlib import symx, optharness as H
from vlib.symx import CTX, SymReal

QR = namedtuple("QR", ["Q", "R"])


def install_stubs(opts, fail_first_eigh=False, canonical_diagonal=False):
    """Returns a log dict; opts gets the eigh/qr callables used by the stand-in's torch.linalg."""
    log = dict(eigh=[], qr=[])

    def eigh(A):
        import torch

        c = len(log["eigh"])
        n = A.shape[0]
        rec = dict(A=A.a.copy(), dtype=A.dtype, n=n)
        log["eigh"].append(rec)
        if fail_first_eigh and c == 0:
            rec["raised"] = True
            raise RuntimeError("injected: eigh failed to converge")
        if canonical_diagonal:
            # exact decomposition of a diagonal input: eigenvalues sorted ascending, Q the matching permutation
            d = [A.a[i, i] for i in range(n)]
            order = list(range(n))
            for i in range(1, n):  # insertion sort with symbolic comparisons (forks over the orderings)
                j = i
                while j > 0 and bool(d[order[j]] < d[order[j - 1]]):
                    order[j], order[j - 1] = order[j - 1], order[j]
                    j -= 1
            L = np.array([d[k] for k in order], dtype=object)
            Q = np.empty((n, n), dtype=object)
            for i in range(n):
                for j in range(n):
                    Q[i, j] = SymReal.const(1 if order[j] == i else 0)
        else:
            L = np.array([symx.var(f"lam{c}_{i}") for i in range(n)], dtype=object)
            for i in range(n - 1):
                CTX.assume(L[i].n <= L[i + 1].n, control=False)  # LAPACK syevd: ascending eigenvalues
            if log.get("floor") is not None:
                CTX.assume(L[0].n >= SymReal.lift(log["floor"]).n, control=False)  # PSD input: spectrum of the decomposed matrix is bounded below
            Q = np.empty((n, n), dtype=object)
            for i in range(n):
                for j in range(n):
                    Q[i, j] = symx.var(f"Qe{c}_{i}_{j}")
        rec["L"], rec["Q"] = L, Q
        return torch.Tensor(L.copy(), A.dtype), torch.Tensor(Q.copy(), A.dtype)

    def qr(M):
        import torch

        c = len(log["qr"])
        n = M.shape[0]
        Q = np.empty((n, n), dtype=object)
        R = np.empty((n, n), dtype=object)
        for i in range(n):
            for j in range(n):
                Q[i, j] = symx.var(f"Qq{c}_{i}_{j}")
                R[i, j] = symx.var(f"Rq{c}_{i}_{j}") if j >= i else SymReal.const(0)
        tot = SymReal.const(0)
        for x in Q.reshape(-1):
            tot = tot + x * x
        CTX.assume(tot.n == n, control=False)  # orthonormal columns: squared Frobenius norm = n (used only to know |Q| > 0)
        log["qr"].append(dict(M=M.a.copy(), Q=Q, R=R, dtype=M.dtype))
        return QR(torch.Tensor(Q.copy(), M.dtype), torch.Tensor(R.copy(), M.dtype))

    opts["eigh"] = eigh
    opts["qr"] = qr
    return log


def sym_matrix(name, n, symmetric=True):
    a = np.empty((n, n), dtype=object)
    for i in range(n):
        for j in range(n):
            a[i, j] = symx.var(f"{name}_{min(i, j)}_{max(i, j)}" if symmetric else f"{name}_{i}_{j}")
    return a


def tens(a, dtype=None):
    import torch

    return torch.Tensor(np.array(a, dtype=object, copy=True), dtype or torch.float32)


def root_atoms():
    """(q, argument) of every q-th root atom created on this path."""
    return [(k[1], arg) for k, (v, arg) in CTX.atoms.items() if k[0] == "root"]


def prove_all_equal(label, got, exp, info):
    got, exp = np.array(got, dtype=object), np.array(exp, dtype=object)
    symx.prove(f"{label}: shape", got.shape == exp.shape, info)
    for idx in (np.ndindex(*got.shape) if got.ndim else [()]):
        symx.prove_equal(f"{label}{list(idx)}", got[idx], exp[idx], info)


def spectral_inverse_root(L, Q, eps, root, enhance_stability):
    """Q diag((lambda - min(lambda_min, 0) + eps)^(-1/r)) Q^T  of whatever matrix was decomposed."""
    n = len(L)
    lmin = L[0]
    for v in L[1:]:
        lmin = v if bool(v < lmin) else lmin
    if enhance_stability:
        sh = lmin - eps
        shift = sh if bool(sh < 0) else SymReal.const(0)
        args = [v - shift for v in L]
    else:
        shift = lmin if bool(lmin < 0) else SymReal.const(0)
        args = [v - shift + eps for v in L]
    r = Fraction(root)  # p/q: exponent -q/p
    D = []
    for a in args:
        base = symx.root(a, r.numerator) if r.numerator != 1 else a
        D.append(SymReal.const(1) / (base ** r.denominator))
    X = np.empty((n, n), dtype=object)
    for i in range(n):
        for j in range(n):
            s = SymReal.const(0)
            for k in range(n):
                s = s + Q[i, k] * D[k] * Q[j, k]
            X[i, j] = s
    return X, args
