"""C09 -- checkpoint save/restore at any step resumes the exact trajectory.

Differential, on the symbolic stand-in: optimizer A runs T real steps with symbolic gradients;
at stop step k its real `distributed_state_dict()` is deep-copied, a freshly constructed optimizer B
over copies of the parameters loads it with the real `load_distributed_state_dict()`, and both
continue with the same gradients.  After every remaining step all parameters and every state
tensor of B must be the same terms as A's (both execute the same code, so any difference is lost
or mis-keyed state).  Key uniqueness: number of flat keys = number of state tensors.
Strictness: a solver-chosen index removes one flat entry / renames a parameter / drops a group;
loading must raise.
"""
from __future__ import annotations

import copy
import json

import numpy as np

from checks import c01
from vlib import symx, optharness as H


def _named(run):
    return [(f"p{i}", p) for i, p in enumerate(run.params)]


def _state_tensors(run):
    out = []
    for pi in range(len(run.params)):
        for name, t, _, _ in run.snapshot_param(pi):
            out.append((pi, name, t))
    return out


def make(cfg):
    T, stop = cfg["T"], cfg["stop"]
    tier = cfg.get("tier", "quick")
    mode = cfg.get("mode", "resume")

    def grads_for(k):
        out = []
        for i, s in enumerate(cfg["params"]):
            present = True
            if cfg.get("presence") == "symbolic":
                present = bool(symx.symbool(f"present_p{i}_s{k}"))
            out.append(H.arr_var(f"g{k}p{i}", tuple(s)) if present else None)
        return out

    def fn():
        A = H.OptRun(cfg)
        info = A._sig("resume-differs" if mode == "resume" else "load-not-strict")
        for k in range(1, stop + 1):
            A.set_grads(grads_for(k))
            e = H.guarded_step(A)
            if e is not None:
                symx.prove(f"step() does not raise ({type(e).__name__}: {str(e)[:60]})", False, info)
        if cfg.get("schedule"):
            # a scheduler changed lr / weight decay after construction: the saved param_groups carry the current values and a resumed run must use them
            for gi, grp in enumerate(A.opt.param_groups):
                for key, hpk in (("lr", "lr"), ("weight_decay", "wd")):
                    nv = symx.hp(f"{hpk}_sched_g{gi}")
                    if H.IS_SYM and not isinstance(nv, float) and nv.c is None:
                        symx.CTX.assume(nv.n >= 0)
                    grp[key] = nv
        sd = A.opt.distributed_state_dict(key_to_param=iter(_named(A)))
        # unique keys: every state tensor has its own flat key
        nflat = sum(len(v) for v in sd["state"].values())
        ntens = len([1 for pi, name, t in _state_tensors(A) if name != "param"])
        symx.prove("the saved state has one flat key per state tensor (keys are unique per parameter and block)", nflat == ntens, info)
        sd2 = copy.deepcopy(sd)
        B = H.OptRun(cfg, tag="", init_values=[H.read(p) for p in A.params], hp=A.hp)
        if mode == "strict":
            victim = symx.symint("victim")
            keys = [(pk, fk) for pk, st in sd2["state"].items() for fk in st]
            choices = len(keys) + len(sd2["state"]) + 1
            if H.IS_SYM:
                import z3

                symx.CTX.assume(z3.And(victim.e >= 0, victim.e < choices))
            what = None
            for i in range(choices):
                if bool(victim == i):
                    if i < len(keys):
                        pk, fk = keys[i]
                        del sd2["state"][pk][fk]
                        what = f"flat entry {fk} of {pk} removed"
                    elif i < len(keys) + len(sd2["state"]):
                        pk = list(sd2["state"].keys())[i - len(keys)]
                        sd2["state"]["unknown_" + pk] = sd2["state"].pop(pk)
                        what = f"parameter {pk} renamed to an unknown name"
                    else:
                        gk = list(sd2["param_groups"].keys())[0]
                        sd2["param_groups"]["other/" + gk] = sd2["param_groups"].pop(gk)
                        what = "param group key changed"
                    break
            symx.CTX.events.append(f"strictness: {what}")
            try:
                B.opt.load_distributed_state_dict(sd2, key_to_param=iter(_named(B)))
                raised = None
            except Exception as e:
                raised = e
            info2 = A._sig("load-not-strict", what=(what or "").split(" of ")[0].split(" p")[0])
            symx.prove(f"loading raises instead of resuming when {what}", raised is not None, info2)
            return f"strict: {what}: {type(raised).__name__ if raised else 'accepted'}"
        try:
            B.opt.load_distributed_state_dict(sd2, key_to_param=iter(_named(B)))
        except Exception as e:
            symx.prove(f"the optimizer's own state dict loads back ({type(e).__name__}: {str(e)[:80]})", False, A._sig("own-state-dict-rejected"))
        for k in range(stop + 1, T + 1):
            g = grads_for(k)
            A.set_grads(g)
            B.set_grads([None if x is None else x.copy() for x in g])
            ea, eb = H.guarded_step(A), H.guarded_step(B)
            symx.prove("resumed and uninterrupted run agree on raising", (ea is None) == (eb is None), info)
            for pi, (pa, pb) in enumerate(zip(A.params, B.params)):
                a, b = H.read(pa), H.read(pb)
                for idx in (np.ndindex(*a.shape) if a.ndim else [()]):
                    symx.prove_equal(f"resumed run has the uninterrupted parameters (stop {stop}, step {k}, param {pi}{list(idx)})", b[idx], a[idx], info)
            sa, sb = _state_tensors(A), _state_tensors(B)
            symx.prove("resumed run has the same set of state tensors", [(p, n) for p, n, _ in sa] == [(p, n) for p, n, _ in sb], info)
            for (pi, name, ta), (_, _, tb) in zip(sa, sb):
                a, b = H.read(ta), H.read(tb)
                for idx in (np.ndindex(*a.shape) if a.ndim else [()]):
                    symx.prove_equal(f"resumed run has the uninterrupted state (stop {stop}, step {k}, param {pi} {name}{list(idx)})", b[idx], a[idx], info)
        return "resumed"

    return fn, H.default_opts(tier)


def make_ddp(cfg):
    """The same resume differential with DDP (DTensor) state: every simulated rank saves and reloads its own state dict."""
    T, stop = cfg["T"], cfg["stop"]
    tier = cfg.get("tier", "quick")
    world, G = cfg["world"], cfg["group"]

    def fn():
        import torch
        from distributed_shampoo.shampoo_types import DDPShampooConfig
        from checks.c06 import _patch_mesh_cache

        _patch_mesh_cache()
        grads = [[H.arr_var(f"g{k}p{i}", tuple(s)) for i, s in enumerate(cfg["params"])] for k in range(1, T + 1)]
        dcfg = dict(cfg)
        dcfg["distributed_config_factory"] = lambda run: DDPShampooConfig(num_trainers_per_group=G, communicate_params=cfg.get("communicate_params", False))
        hp_shared = [None]
        sim = torch.distributed.Sim(world)
        info_box = [None]

        def rank_fn(r):
            A = H.OptRun(dcfg, hp=hp_shared[0])
            if hp_shared[0] is None:
                hp_shared[0] = A.hp
            info = A._sig("resume-differs", layout="ddp")
            info_box[0] = info
            for k in range(stop):
                A.set_grads([g.copy() for g in grads[k]])
                A.impl_step()
            sd = copy.deepcopy(A.opt.distributed_state_dict(key_to_param=iter(_named(A))))
            B = H.OptRun(dcfg, init_values=[H.read(p) for p in A.params], hp=A.hp)
            B.opt.load_distributed_state_dict(sd, key_to_param=iter(_named(B)))
            for k in range(stop, T):
                A.set_grads([g.copy() for g in grads[k]])
                B.set_grads([g.copy() for g in grads[k]])
                A.impl_step()
                B.impl_step()
                for pi, (pa, pb) in enumerate(zip(A.params, B.params)):
                    a, b = H.read(pa), H.read(pb)
                    for idx in (np.ndindex(*a.shape) if a.ndim else [()]):
                        symx.prove_equal(f"rank {r}: resumed DDP run has the uninterrupted parameters (stop {stop}, step {k + 1}, param {pi}{list(idx)})", b[idx], a[idx], info)
                sa, sb = _state_tensors(A), _state_tensors(B)
                symx.prove(f"rank {r}: same set of state tensors after resume", [(p, n) for p, n, _ in sa] == [(p, n) for p, n, _ in sb], info)
                for (pi, name, ta), (_, _, tb) in zip(sa, sb):
                    a, b = H.read(ta), H.read(tb)
                    if a.shape != b.shape:
                        symx.prove(f"rank {r}: state tensor {name} keeps its local shape after resume", False, info)
                    for idx in (np.ndindex(*a.shape) if a.ndim else [()]):
                        symx.prove_equal(f"rank {r}: resumed DDP run has the uninterrupted state (stop {stop}, step {k + 1}, param {pi} {name}{list(idx)})", b[idx], a[idx], info)
            return True

        _, errors = sim.run(rank_fn)
        for e in errors:
            if isinstance(e, (symx.PathEnd, symx.Restart, symx.PathViolation, symx.HarnessError)):
                raise e
        bad = [e for e in errors if e is not None]
        if bad:
            symx.prove(f"a rank failed while saving / loading / resuming: {type(bad[0]).__name__}: {str(bad[0])[:160]}", False, info_box[0] or dict(cfg=cfg, signature=dict(kind="resume-differs")))
        return "resumed-ddp"

    return fn, H.default_opts(tier)


def jobs_for(tier):
    jobs = []
    n = 0

    def add(T, stops=None, **kw):
        nonlocal n
        for stop in (stops if stops is not None else range(0, T + 1)):
            kw2 = dict(assume_generic=True)
            kw2.update(kw)
            cfg = c01.base_cfg(tier=tier, T=T, stop=stop, **kw2)
            jobs.append(dict(id=f"r{n}", module="checks.c09", factory="make", cfg=cfg))
            n += 1

    # every feature on: Adam grafting, filtering, momentum/Nesterov, weight decay; blocked parameter; refresh at 2
    add(3, params=[(2, 3)], mpd=2, merge=False, graft="adam", nesterov=True, bias_corr=True, decoupled=True, pf=1, sps=2)
    add(3, params=[(2, 2), (3,)], mpd=2, merge=True, graft="rmsprop", nesterov=False, bias_corr=False, decoupled=False, pf=2, sps=2, presence="symbolic", stops=[1, 2])
    add(3, params=[(2, 2)], mpd=2, merge=False, graft=None, nesterov=False, bias_corr=True, decoupled=True, pf=1, sps=2, precond="soap_eigh", stops=[1, 2])
    # SOAP with a stale basis between refreshes: the step after the stop is not a refresh step
    add(4, params=[(2, 2)], mpd=2, merge=False, graft="adam", nesterov=False, bias_corr=True, decoupled=True, pf=2, sps=2, precond="soap_eigh", stops=[2, 3], fixed=dict(mom=0))
    add(3, params=[(2, 2)], mpd=2, merge=False, graft=None, nesterov=False, bias_corr=True, decoupled=True, pf=2, sps=2, precond="soap_qr", stops=[2], fixed=dict(mom=0, wd=0))
    add(2, params=[(2, 2), (2,)], groups=[[0], [1]], mpd=2, merge=False, graft="sgd", nesterov=True, bias_corr=True, decoupled=True, pf=1, sps=1, stops=[1])
    # half-precision parameters: every state tensor the run reads must be the one that is checkpointed
    add(2, params=[(2, 2)], mpd=2, merge=False, graft="adam", nesterov=False, bias_corr=True, decoupled=True, pf=1, sps=2, stops=[1], pdtype="bfloat16", fdtype="float32", fixed=dict(mom=0))
    add(2, params=[(2, 2)], mpd=2, merge=False, graft="rmsprop", nesterov=False, bias_corr=True, decoupled=True, pf=1, sps=1, stops=[1], pdtype="float16", fdtype="float32", fixed=dict(mom=0, wd=0))
    # hyperparameters changed after construction (lr / weight-decay scheduler) must come back from the checkpoint
    add(2, params=[(2, 2), (2,)], groups=[[0], [1]], mpd=2, merge=False, graft="adam", nesterov=False, bias_corr=True, decoupled=True, pf=1, sps=1, stops=[0, 1], schedule=True, fixed=dict(mom=0))
    # a block that carries no Kronecker factor (every dimension ignored)
    add(2, params=[(1, 3)], mpd=4, merge=True, graft=None, nesterov=False, bias_corr=True, decoupled=True, pf=1, sps=1, ignored_dims=[0], fixed=dict(b1=0, mom=0), assume_generic=False, stops=[1])
    # strictness of loading
    for kw in (dict(params=[(2, 3)], mpd=2, merge=False, graft="adam"), dict(params=[(3,)], mpd=4, merge=True, graft=None), dict(params=[(2, 2)], mpd=2, merge=False, graft=None, precond="soap_eigh")):
        cfg = c01.base_cfg(tier=tier, assume_generic=True, T=1, stop=1, mode="strict", nesterov=False, bias_corr=True, decoupled=True, pf=1, sps=1, **kw)
        jobs.append(dict(id=f"s{n}", module="checks.c09", factory="make", cfg=cfg))
        n += 1
    # DDP (DTensor) state layout on the rank simulator
    for stop in (1, 2):
        cfg = c01.base_cfg(tier=tier, assume_generic=True, T=3, stop=stop, params=[(2, 4), (2,), (3,)], mpd=2, merge=False, graft="adam", nesterov=True, bias_corr=True,
                           decoupled=True, pf=1, sps=2, world=2, group=2)
        jobs.append(dict(id=f"d{n}", module="checks.c09", factory="make_ddp", cfg=cfg))
        n += 1
    if tier == "thorough":
        add(4, params=[(2, 3)], mpd=2, merge=False, graft="adam", nesterov=True, bias_corr=True, decoupled=False, pf=2, sps=2, assume_generic=False)
        add(4, params=[(2, 2), (2,)], groups=[[0], [1]], mpd=2, merge=False, graft="adagrad", nesterov=False, bias_corr=True, decoupled=True, pf=1, sps=2, presence="symbolic")
        add(3, params=[(2, 2)], mpd=2, merge=False, graft="adam", nesterov=True, bias_corr=True, decoupled=True, pf=1, sps=2, precond="soap_qr")
    return jobs


def random_jobs(seed, n, tier):
    """Seeded sample: option product x layout x schedule x stop step (every stop step 0..T is eligible)."""
    import random

    rng = random.Random(7919 * seed + 5)
    out = []
    for i, c in enumerate(c01.random_cfgs(seed + 1, n, precond=("shampoo", "shampoo", "soap_eigh", "soap_qr"), tier=tier)):
        c = dict(c)
        c["T"] = min(c["T"], 3)
        c["stop"] = rng.randrange(0, c["T"] + 1)
        c.pop("rebase", None)
        out.append(dict(id=f"x{i}", module="checks.c09", factory="make", cfg=c))
    return out


def run(tier, seed, argv):
    from vlib import par
    from vlib.report import Report

    rep = Report("C09", tier, seed)
    jobs = jobs_for(tier)
    jobs += random_jobs(seed, 6 if tier == "quick" else 200, tier)
    if argv:
        jobs = [j for j in jobs if j["id"] in argv]
    rep.bounds = dict(jobs=len(jobs), stop_steps="every k in 0..T, T<=3 (quick) / 4 (thorough)", configs="Shampoo/SOAP, Adam/RMSprop/SGD/no grafting, momentum, filtering, two groups, blocked parameters, a block without Kronecker factors",
                      strictness="solver-chosen index: each flat entry removed, each parameter renamed, group key changed")
    rep.assumptions = ["real arithmetic; bit patterns and torch.save serialisation are outside the claim", "generic equality regime of the hyperparameters (thorough adds all regimes for one configuration)",
                       "DDP (DTensor) state layout: world 2 on the rank simulator; other distributed layouts are not resumed"]
    rep.validate_standin(6 if tier == "quick" else 24)
    rep.absorb("resume", par.run_jobs(jobs, chunk=6), soft=lambda j: j.startswith("x"))
    return rep.finish("checks.c09")


def replay(record):
    if ((record.get("info") or {}).get("signature") or {}).get("layout") == "ddp":
        from checks import c09_replay

        return c09_replay.replay(record)
    return H.replay_record(record, make)
