"""C16 -- state-dict flatten/unflatten and OptimizerModule state round-trip losslessly.

The real `flatten` / `unflatten` run on nested dictionaries whose keys are *symbolic* strings
(z3 String, length <= 4, any characters incl. quotes, brackets, separators) or symbolic integers;
`json.dumps/loads` is replaced by an injective, invertible encoding of key lists (its documented
round trip), so what is checked is the repository's recursion: distinct key paths -> distinct
flat keys (decided by z3 on the symbolic keys), exact restoration of nesting / key types /
leaf identity, leafless sub-dicts dropped.  Tree skeletons are enumerated up to the bound.
`OptimizerModule.state_dict/load_state_dict` run on enumerated object graphs whose tensors have
symbolic contents.  A concrete adversarial-key pass through the *real* json backs the stub.
"""
from __future__ import annotations

import itertools

import z3

from vlib import symx
from vlib.symx import SymBool, SymInt, SymStr


# ------------------------------------------------------------------------------------------ json stub
class SymIntKey(SymInt):
    """A symbolic integer usable as a dict key (constant hash, solver-decided equality)."""

    __slots__ = ()

    def __hash__(self):
        return 0


def symintkey(name):
    if symx.CTX.mode == "concrete":
        return int(symx.CTX.values[name])
    symx.CTX.control.add(name)
    return SymIntKey(z3.Int(name), vname=name)


class EncKey:
    """json.dumps(list_of_keys): injective encoding -- equal iff same length, same types, equal parts."""

    def __init__(self, parts):
        self.parts = tuple(parts)

    def __hash__(self):
        return 0

    def __eq__(self, o):
        if not isinstance(o, EncKey) or len(o.parts) != len(self.parts):
            return False
        acc = True
        for a, b in zip(self.parts, o.parts):
            ka, kb = _kind(a), _kind(b)
            if ka != kb:
                return False
            e = (a == b)
            if isinstance(e, bool):
                if not e:
                    return False
                continue
            acc = e if acc is True else (acc & e)
        return acc

    def __ne__(self, o):
        r = self.__eq__(o)
        return (not r) if isinstance(r, bool) else ~r

    def __repr__(self):
        return f"EncKey{self.parts}"


def _kind(k):
    return "int" if isinstance(k, (int, SymInt)) and not isinstance(k, bool) else "str"


class JsonStub:
    @staticmethod
    def dumps(obj, **kw):
        if not isinstance(obj, list):
            raise symx.HarnessError("json stub: only key lists are modelled")
        for p in obj:
            if not isinstance(p, (str, int, SymStr, SymInt)):
                raise TypeError(f"Object of type {type(p).__name__} is not JSON serializable")
        return EncKey(obj)

    @staticmethod
    def loads(s, **kw):
        if not isinstance(s, EncKey):
            raise symx.HarnessError("json stub: loads of a foreign string")
        return list(s.parts)


# ------------------------------------------------------------------------------------------ skeletons
def skeletons(max_depth, max_leaves, max_children):
    """Trees as nested tuples: 'L' leaf, () empty dict, (child, ...) dict."""

    def gen(depth, leaves_left):
        # yields (tree, leaves_used)
        yield "L", 1
        if depth == 0:
            return
        yield (), 0
        for k in range(1, max_children + 1):
            def rec(i, left):
                if i == k:
                    yield (), 0
                    return
                for sub, used in gen(depth - 1, left):
                    if used <= left:
                        for rest, u2 in rec(i + 1, left - used):
                            yield (sub,) + rest, used + u2
            for kids, used in rec(0, leaves_left):
                if used <= leaves_left:
                    yield kids, used

    out = []
    for t, used in gen(max_depth, max_leaves):
        if t != "L" and t != ():
            out.append(t)
    # canonical de-duplication
    seen, res = set(), []
    for t in out:
        if t not in seen:
            seen.add(t)
            res.append(t)
    return res


class Leaf:
    """Stands for a tensor leaf (identity matters, content does not for flatten)."""

    def __init__(self, name):
        self.name = name

    def __repr__(self):
        return f"Leaf({self.name})"


def build(tree, keykinds, counter, sib_constraints, path=()):
    """Instantiate a skeleton with symbolic keys; returns nested dict and list of (path, leaf)."""
    d, leaves = {}, []
    keys = []
    for i, sub in enumerate(tree):
        n = next(counter)
        kind = keykinds[n % len(keykinds)]
        k = symx.symstr(f"k{n}") if kind == "S" else symintkey(f"i{n}")
        keys.append(k)
    for a, b in itertools.combinations(keys, 2):
        if _kind(a) == _kind(b):
            symx.CTX.assume(z3.Not((a == b).e))  # sibling keys of a dict are distinct by construction
    for k, sub in zip(keys, tree):
        # insert without triggering symbolic comparisons: build via list of pairs, then dict()
        pass
    items = []
    for k, sub in zip(keys, tree):
        if sub == "L":
            lf = Leaf("/".join(map(str, range(len(path) + 1))) + f"#{id(k) % 997}")
            items.append((k, lf))
            leaves.append((path + (k,), lf))
        else:
            sd, sl = build(sub, keykinds, counter, sib_constraints, path + (k,))
            items.append((k, sd))
            leaves += sl
    for k, v in items:
        d[k] = v  # sibling distinctness makes every comparison during insertion forced False
    return d, leaves


def lookup(d, path):
    cur = d
    for k in path:
        if not isinstance(cur, dict):
            return None, "not-a-dict"
        found = None
        for kk in cur.keys():
            if _kind(kk) != _kind(k):
                continue
            e = (kk == k)
            if (e if isinstance(e, bool) else bool(e)):
                found = kk
                break
        if found is None:
            return None, "missing"
        cur = cur[found]
    return cur, "ok"


def count_leaves(d):
    return sum(count_leaves(v) if isinstance(v, dict) else 1 for v in d.values())


def has_empty(d):
    return any(isinstance(v, dict) and (len(v) == 0 or has_empty(v)) for v in d.values())


def make(cfg):
    tree = _totuple(cfg["tree"])
    kinds = cfg["kinds"]
    twin = cfg.get("twin")

    def fn():
        import distributed_shampoo.utils.shampoo_checkpoint_utils as cu

        old = cu.json
        cu.json = JsonStub
        try:
            counter = itertools.count()
            d, leaves = build(tree, kinds, counter, None)
            info = dict(signature=dict(kind="flatten-roundtrip"), cfg=cfg)
            flat = cu.flatten(d)
            symx.CTX.events.append(f"leaves={len(leaves)} flat_keys={len(flat)}")
            expected = len(leaves) + (1 if twin == "lose-a-key" else 0)
            symx.prove("distinct-paths->distinct-flat-keys (key count = leaf count)", len(flat) == expected, info)
            for v in flat.values():
                symx.prove("flat-values-are-the-leaves", any(v is lf for _, lf in leaves), info)
            back = cu.unflatten(flat)
            for path, lf in leaves:
                got, why = lookup(back, path)
                symx.prove(f"round-trip restores leaf at its path ({why})", got is lf, info)
            symx.prove("no-extra-entries", count_leaves(back) == len(leaves), info)
            symx.prove("leafless-sub-dicts-dropped", not has_empty(back), info)
            return len(flat)
        finally:
            cu.json = old

    return fn, dict(query_timeout_ms=20000, no_pins=True)


def _totuple(t):
    if t == "L":
        return "L"
    return tuple(_totuple(x) for x in t)


# ------------------------------------------------------------------------------------------ OptimizerModule graphs
def module_graphs():
    """Enumerated object graphs: attribute -> tensor | dict | tuple | list | nested module (depth <= 3)."""
    atoms = ["T", ("dict", ("T",)), ("tuple", ("T", "T")), ("list", ("T",)), ("mod", ("T",)), ("dict", (("tuple", ("T",)), "T")),
             ("mod", (("dict", ("T", "T")),)), ("tuple", (("mod", ("T",)), "T")), ("list", (("dict", ("T",)),)), ("mod", (("mod", ("T",)), "T")),
             ("dict", (("dict", ("T",)),)), ("tuple", (("tuple", ("T", "T")),))]
    graphs = []
    for a in atoms:
        graphs.append((a,))
    for a, b in itertools.combinations(atoms, 2):
        graphs.append((a, b))
    return graphs


LAYOUTS = ("row", "transposed", "column", "scalar")  # tensor layouts cycled over the leaves of a module graph (contiguous, non-contiguous views, 0-d)


def make_module(cfg):
    spec = _totuple2(cfg["graph"])
    symkeys = cfg.get("symkeys", False)
    layout_shift = cfg.get("layout_shift", 0)

    def fn():
        import torch
        from optimizer_modules import OptimizerModule

        cnt = itertools.count()
        info = dict(signature=dict(kind="module-state"), cfg=cfg)

        def mk(node, tensors, prefix):
            if node == "T":
                n = next(cnt)
                lay = LAYOUTS[(len(tensors) + layout_shift) % len(LAYOUTS)]
                if lay == "row":
                    t = torch.tensor([[symx.var(f"{prefix}t{n}_0"), symx.var(f"{prefix}t{n}_1")]], dtype=torch.float32)
                elif lay == "transposed":  # non-contiguous view of a 2x2 matrix
                    t = torch.tensor([[symx.var(f"{prefix}t{n}_0"), symx.var(f"{prefix}t{n}_1")], [symx.var(f"{prefix}t{n}_2"), symx.var(f"{prefix}t{n}_3")]], dtype=torch.float32).T
                elif lay == "column":  # strided column slice of a fused 2x3 buffer
                    t = torch.tensor([[symx.var(f"{prefix}t{n}_{j}") for j in range(3)], [symx.var(f"{prefix}t{n}_{j}") for j in range(3, 6)]], dtype=torch.float32)[:, 1:]
                else:  # 0-d
                    t = torch.tensor(symx.var(f"{prefix}t{n}_0"), dtype=torch.float32)
                tensors.append(t)
                return t
            kind, kids = node
            vals = [mk(k, tensors, prefix) for k in kids]
            if kind == "dict":
                return {(f"key{i}" if not symkeys else i): v for i, v in enumerate(vals)}
            if kind == "tuple":
                return tuple(vals)
            if kind == "list":
                return list(vals)
            m = OptimizerModule()
            for i, v in enumerate(vals):
                setattr(m, f"attr{i}", v)
            m.non_tensor = 7
            return m

        nshared = [0]

        def top(prefix):
            tensors = []
            m = OptimizerModule()
            for i, node in enumerate(spec):
                before = len(tensors)
                setattr(m, f"a{i}", mk(node, tensors, prefix))
                if i == 0 and cfg.get("shared") and node != "T":
                    # the same container / module object reachable through a second attribute path (a DAG, no cycle)
                    m.alias0 = m.a0
                    nshared[0] = len(tensors) - before
            return m, tensors

        src, src_t = top("s")
        dst, dst_t = top("d")
        snt = bool(cfg.get("store_non_tensors"))
        sd = src.state_dict(store_non_tensors=True) if snt else src.state_dict()
        found = []

        def walk(x):
            if isinstance(x, torch.Tensor):
                found.append(x)
            elif isinstance(x, dict):
                for v in x.values():
                    walk(v)
            elif not snt:
                symx.prove("state-dict holds only dicts and tensors", False, info)

        walk(sd)
        symx.prove("every reachable tensor appears once per path that reaches it", len(found) == len(src_t) + nshared[0], info)
        for t in src_t:
            hits = [f for f in found if f.a is t.a or (f.a.base is t.a) or (f.a.shape == t.a.shape and all(x is y for x, y in zip(f.a.reshape(-1), t.a.reshape(-1))))]
            symx.prove("state-dict tensor aliases/equals the module tensor", len(hits) >= 1, info)
        ids_before = [id(t) for t in dst_t]
        arrs_before = [t.a for t in dst_t]
        try:
            dst.load_state_dict(sd, store_non_tensors=True) if snt else dst.load_state_dict(sd)
        except Exception as e:
            symx.prove(f"a module loads the state dict of a structurally equal module ({type(e).__name__}: {str(e)[:80]})", False, info)
        # tensor objects stay, contents are the loaded ones
        after = []

        def collect(x):
            if isinstance(x, torch.Tensor):
                after.append(x)
            elif isinstance(x, dict):
                for v in x.values():
                    collect(v)
            elif isinstance(x, (list, tuple)):
                for v in x:
                    collect(v)
            elif isinstance(x, OptimizerModule):
                for k, v in x.__dict__.items():
                    collect(v)

        collect(dst)
        if nshared[0]:
            # the shared container is walked twice (a0, alias0): drop the second visit
            seen_ids, uniq = set(), []
            for t in after:
                if id(t) not in seen_ids:
                    seen_ids.add(id(t))
                    uniq.append(t)
            after = uniq
        symx.prove("tensor objects are not replaced by load_state_dict", [id(t) for t in after] == ids_before and all(t.a is a for t, a in zip(after, arrs_before)), info)
        for ti, (td, ts) in enumerate(zip(dst_t, src_t)):
            symx.prove(f"loaded tensor {ti} keeps its shape", tuple(td.shape) == tuple(ts.shape), info)
            for x, y in zip(td.a.reshape(-1), ts.a.reshape(-1)):
                symx.prove_equal(f"loaded value tensor {ti}", x, y, info)
        return len(found)

    return fn, dict(query_timeout_ms=20000, no_pins=True)


def _totuple2(t):
    if t == "T":
        return "T"
    if isinstance(t, (list, tuple)) and len(t) == 2 and isinstance(t[0], str) and t[0] in ("dict", "tuple", "list", "mod"):
        return (t[0], tuple(_totuple2(x) for x in t[1]))
    return tuple(_totuple2(x) for x in t)


# ------------------------------------------------------------------------------------------ concrete adversarial keys (real json)
ADVERSARIAL = ['a', 'a/b', 'b', '"', '\\', '[', ']', ',', ' ', '', '["a"]', '["a", "b"]', 'a", "b', '0', 'a.b', "'", '\n', 'é', '{"a":1}', 'null',
               '\\n', '\\u0041', 'A', 'a\\', '\t', '\\"', '\x00', '\x7f', '\u2028', 'a\\b']


def adversarial_real_json():
    import distributed_shampoo.utils.shampoo_checkpoint_utils as cu

    class T:
        pass

    n, bad = 0, []
    keys = ADVERSARIAL + [0, 1, -1]
    for k1, k2 in itertools.product(keys, repeat=2):
        for k3 in ("x", k1):
            t1, t2, t3 = T(), T(), T()
            d = {k1: {k2: t1}, "zz9": t2}
            if k3 != k1 or isinstance(d[k1], dict):
                d.setdefault("other", {})[k3] = t3
            n += 1
            try:
                flat = cu.flatten(d)
                nleaf = 3
                if len(flat) != nleaf:
                    bad.append(("collision", repr(d)[:80]))
                    continue
                back = cu.unflatten(flat)
                ok = (set(back.keys()) == set(d.keys()) and back[k1][k2] is t1 and back["zz9"] is t2 and back["other"][k3] is t3
                      and type(list(back[k1].keys())[0]) is type(k2))
            except Exception as e:  # a key the encoding cannot carry: the round trip fails by raising
                bad.append((f"round trip raised {type(e).__name__}", repr(d)[:80]))
                continue
            if not ok:
                bad.append(("roundtrip", repr(d)[:80]))
    # sibling keys: two distinct keys of one dict must come back as two entries holding their own leaves
    for k1, k2 in itertools.combinations(keys, 2):
        t1, t2 = T(), T()
        n += 1
        try:
            back = cu.unflatten(cu.flatten({"p": {k1: t1, k2: t2}}))
            if not (len(back["p"]) == 2 and back["p"][k1] is t1 and back["p"][k2] is t2):
                bad.append(("sibling keys confused", repr((k1, k2))))
        except Exception as e:
            bad.append((f"sibling keys: round trip raised {type(e).__name__}", repr((k1, k2))))
    # pairs of distinct paths that a concatenating encoding would confuse
    for p, q in ((("a", "b/c"), ("a/b", "c")), (("a", "b"), ("a", "b", "")), ((1,), ("1",)), (("a,b",), ("a", "b")), (('a", "b',), ("a", "b"))):
        t1, t2 = T(), T()

        def nest(path, leaf):
            d = leaf
            for k in reversed(path):
                d = {k: d}
            return d

        d1, d2 = nest(p, t1), nest(q, t2)
        f1, f2 = cu.flatten(d1), cu.flatten(d2)
        n += 1
        if set(f1.keys()) & set(f2.keys()):
            bad.append(("distinct paths share a flat key", (p, q)))
    return n, bad


def run(tier, seed, argv):
    from vlib import par
    from vlib.report import Report

    rep = Report("C16", tier, seed)
    if tier == "quick":
        sk = skeletons(3, 3, 2)
        kinds = ["S", "SI"]
    else:
        # all skeletons of depth<=3 / leaves<=4 / 2 children, plus a deterministic sample of the deeper and wider families
        sk = skeletons(3, 4, 2)
        import random

        rng = random.Random(seed)
        for fam in (skeletons(4, 4, 2), skeletons(3, 4, 3)):
            extra = [t for t in fam if t not in set(sk)]
            sk += rng.sample(extra, min(400, len(extra)))
        kinds = ["S", "SI", "IS", "I"]
    jobs = []
    for i, t in enumerate(sk):
        for kk in kinds:
            jobs.append(dict(id=f"t{i}{kk}", module="checks.c16", factory="make", cfg=dict(tree=t, kinds=kk)))
    rep.bounds = dict(tree_skeletons=len(sk), depth="<=3" if tier == "quick" else "<=3 exhaustively, depth 4 / 3 children sampled (800 skeletons, seeded)", leaves="<=3" if tier == "quick" else "<=4", key_strings="z3 String, length<=4, any characters",
                      key_kinds=kinds, module_graphs=len(module_graphs()))
    rep.assumptions = ["json.loads(json.dumps(l)) == l and dumps injective for lists of str|int (stub); backed by a concrete adversarial-key pass through the real json",
                       "sibling keys of one dict are distinct (they are dict keys)", "tree skeletons / object graphs enumerated up to the bound; tensor contents symbolic"]
    res = par.run_jobs(jobs, chunk=8)
    rep.absorb("flatten", res)
    mjobs = [dict(id=f"m{i}", module="checks.c16", factory="make_module", cfg=dict(graph=g, symkeys=bool(i % 2), layout_shift=i % len(LAYOUTS))) for i, g in enumerate(module_graphs())]
    if tier == "quick":
        mjobs = mjobs[:30]
    # the documented non-default store_non_tensors=True: tensors are still loaded in place
    mjobs += [dict(id=f"n{i}", module="checks.c16", factory="make_module", cfg=dict(graph=g, symkeys=bool(i % 2), layout_shift=i % len(LAYOUTS), store_non_tensors=True))
              for i, g in enumerate(module_graphs()[: (10 if tier == "quick" else 40)])]
    # shared (non-tensor) objects: the first attribute's container / module is also reachable through a second attribute
    sh = [g for g in module_graphs() if g[0] != "T"]
    mjobs += [dict(id=f"h{i}", module="checks.c16", factory="make_module", cfg=dict(graph=g, symkeys=bool(i % 2), layout_shift=i % len(LAYOUTS), shared=True))
              for i, g in enumerate(sh[: (12 if tier == "quick" else len(sh))])]
    rep.absorb("module", par.run_jobs(mjobs, chunk=4))
    tw = par.run_jobs([dict(id="twin0", module="checks.c16", factory="make", cfg=dict(tree=("L", "L"), kinds="S", twin="lose-a-key"))])
    rep.twin_expected = 1
    rep.twin_sat = int(any(x["status"] == "violation" for r in tw.values() for x in r["records"]))
    n, bad = adversarial_real_json_in_subprocess()
    rep.extra["adversarial_real_json_cases"] = n
    rep.validated_traces = n
    if bad:
        rep.extra["adversarial_failures"] = bad[:5]
        rep.violations.append(dict(label=f"real-json adversarial keys: {bad[0]}", info=dict(signature=dict(kind="adversarial-keys"), cfg={}), model={}, job="concrete"))
    return rep.finish("checks.c16")


def adversarial_real_json_in_subprocess():
    """The adversarial pass needs the real json and no stand-in; it is pure Python, run it here directly."""
    return adversarial_real_json()


# ------------------------------------------------------------------------------------------ replay
def replay(record):
    import torch
    import distributed_shampoo.utils.shampoo_checkpoint_utils as cu

    info = record.get("info") or {}
    kind = (info.get("signature") or {}).get("kind")
    if kind == "adversarial-keys":
        n, bad = adversarial_real_json()
        return bool(bad), f"{n} adversarial cases through the real json: {bad[:3] if bad else 'ok'}"
    cfg = info.get("cfg", {})
    m = record.get("model", {})
    if kind == "flatten-roundtrip":
        tree = _totuple(cfg["tree"])
        kinds = cfg["kinds"]
        cnt = itertools.count()
        leaves = []

        def b(tree, path):
            d = {}
            for sub in tree:
                n = next(cnt)
                k = m.get(f"k{n}", f"k{n}") if kinds[n % len(kinds)] == "S" else int(m.get(f"i{n}", n))
                if sub == "L":
                    t = torch.zeros(1)
                    d[k] = t
                    leaves.append((path + (k,), t))
                else:
                    d[k] = b(sub, path + (k,))
            return d

        d = b(tree, ())
        flat = cu.flatten(d)
        probs = []
        nl = count_leaves(d)
        if len(flat) != nl:
            probs.append(f"{nl} leaves but {len(flat)} flat keys")
        back = cu.unflatten(flat)
        for path, t in leaves:
            cur = back
            try:
                for k in path:
                    cur = cur[k]
                if cur is not t:
                    probs.append(f"leaf at {path} not restored")
            except (KeyError, TypeError):
                probs.append(f"path {path} missing after round trip")
        if has_empty(back):
            probs.append("leafless sub-dict survived")
        return bool(probs), f"keys from model {m}: " + ("; ".join(probs) if probs else "round trip ok")
    if kind == "module-state":
        from optimizer_modules import OptimizerModule

        spec = _totuple2(cfg["graph"])

        def mk(node, tensors, base):
            if node == "T":
                n = len(tensors)
                lay = LAYOUTS[(n + cfg.get("layout_shift", 0)) % len(LAYOUTS)]
                b0 = base + 10 * n
                if lay == "row":
                    t = torch.tensor([[b0, b0 + 0.5]])
                elif lay == "transposed":
                    t = torch.tensor([[b0, b0 + 1.0], [b0 + 2.0, b0 + 3.0]]).T
                elif lay == "column":
                    t = torch.tensor([[b0 + j for j in range(3)], [b0 + 3.0 + j for j in range(3)]])[:, 1:]
                else:
                    t = torch.tensor(b0)
                tensors.append(t)
                return t
            kind_, kids = node
            vals = [mk(k, tensors, base) for k in kids]
            if kind_ == "dict":
                return {(f"key{i}" if not cfg.get("symkeys") else i): v for i, v in enumerate(vals)}
            if kind_ == "tuple":
                return tuple(vals)
            if kind_ == "list":
                return list(vals)
            mm = OptimizerModule()
            for i, v in enumerate(vals):
                setattr(mm, f"attr{i}", v)
            return mm

        nshared = [0]

        def top(base):
            ts = []
            mm = OptimizerModule()
            for i, node in enumerate(spec):
                before = len(ts)
                setattr(mm, f"a{i}", mk(node, ts, base))
                if i == 0 and cfg.get("shared") and node != "T":
                    mm.alias0 = mm.a0
                    nshared[0] = len(ts) - before
            return mm, ts

        src, st = top(1.0)
        dst, dt = top(100.0)
        snt = bool(cfg.get("store_non_tensors"))
        sd = src.state_dict(store_non_tensors=True) if snt else src.state_dict()
        ids = [id(t) for t in dt]
        probs = []
        try:
            dst.load_state_dict(sd, store_non_tensors=True) if snt else dst.load_state_dict(sd)
        except Exception as e:
            probs.append(f"loading the state dict of a structurally equal module raises {type(e).__name__}: {e}")
        cnt = [0]

        def walk(x):
            if isinstance(x, torch.Tensor):
                cnt[0] += 1
            elif isinstance(x, dict):
                for v in x.values():
                    walk(v)

        walk(sd)
        if cnt[0] != len(st) + nshared[0]:
            probs.append(f"{len(st)} tensors reachable ({nshared[0]} of them through two paths), {cnt[0]} entries in the state dict")
        for a, b2 in zip(dt, st):
            if not torch.equal(a, b2):
                probs.append("value not loaded")
        # the module must still hold the very tensor objects it held before the load (same order of traversal as construction)
        now = []

        def collect_real(x):
            if isinstance(x, torch.Tensor):
                now.append(x)
            elif isinstance(x, dict):
                for v in x.values():
                    collect_real(v)
            elif isinstance(x, (list, tuple)):
                for v in x:
                    collect_real(v)
            elif isinstance(x, OptimizerModule):
                for k_, v in x.__dict__.items():
                    collect_real(v)

        collect_real(dst)
        uniq, seen_ids = [], set()
        for t_ in now:
            if id(t_) not in seen_ids:
                seen_ids.add(id(t_))
                uniq.append(t_)
        if [id(t_) for t_ in uniq] != ids:
            probs.append(f"{sum(1 for a_, b_ in zip([id(t_) for t_ in uniq], ids) if a_ != b_) + abs(len(uniq) - len(ids))} tensor objects were replaced by load_state_dict")
        return bool(probs), "; ".join(probs) if probs else "module state round trip ok"
    return False, "unknown record kind"
