"""C07 -- FSDP/HSDP Shampoo equals serial Shampoo on the shard's recovered tensor blocks.

Original parameters are flattened and cut into contiguous shards (every boundary, incl. mid-row,
single elements, empty shards); each simulated shard rank runs the real FSDPDistributor (HSDP:
HSDPDistributor over a simulated 2-D mesh) inside the real optimizer on its flat shard with
hand-built FSDPParameterMetadata.  Oracle (differential): the serial optimizer on the documented
recovered sub-tensors (maximal slabs k x shape[d+1:]) as independent parameters.  Per path (symbolic
hyperparameters, values, gradients, presence) every element of every shard must equal the oracle, and
over the shard ranks every element of the original parameter is updated exactly once.
"""
from __future__ import annotations

from math import prod

import numpy as np

from checks import c01
from vlib import symx, optharness as H


def ref_slabs(shape, s, e, d=0):
    """Documented recovery: maximal slabs k x shape[d+1:] inside [s, e) (left / centre / right recursion)."""
    if s >= e:
        return []
    if d >= len(shape) - 1:
        return [(s, e, ())] if len(shape) <= 1 or True else []
    T = prod(shape[d + 1:])
    cs, ce = -(-s // T) * T, e // T * T
    if cs < ce:
        return ref_slabs(shape, s, cs, d + 1) + [(cs, ce, tuple(shape[d + 1:]))] + ref_slabs(shape, ce, e, d + 1)
    if cs > ce:
        return ref_slabs(shape, s, e, d + 1)
    return ref_slabs(shape, s, cs, d + 1) + ref_slabs(shape, ce, e, d + 1)


def make(cfg):
    T = cfg["T"]
    tier = cfg.get("tier", "quick")
    origs = [tuple(s) for s in cfg["orig_shapes"]]
    cuts = cfg["cuts"]  # per rank: list of (start, end) per original parameter
    nranks = len(cuts)
    hsdp = cfg.get("hsdp")

    def fn():
        import torch
        from distributed_shampoo.shampoo_types import FSDPParameterMetadata, FSDPShampooConfig, HSDPShampooConfig
        from torch.distributed.fsdp import ShardingStrategy
        from checks.c06 import _patch_mesh_cache

        _patch_mesh_cache()
        comm_name = (hsdp or {}).get("comm", "FP32")
        low = comm_name in ("BF16", "FP16")
        if low:
            symx.CTX.opts["round_low_precision"] = True  # casts to bfloat16/float16 become the uninterpreted rounding round_<dtype>(x)
        rname = "round_" + {"BF16": "bfloat16", "FP16": "float16"}.get(comm_name, "")

        def rnd(x):
            x = symx.SymReal.lift(x)
            return x if (x.c is not None and x.c == 0) else symx.opaque(rname, [x])

        W = [H.arr_var(f"w{i}", s) for i, s in enumerate(origs)]
        flatW = [w.reshape(-1) for w in W]
        grads_all = []
        for k in range(1, T + 1):
            g = []
            for i, s in enumerate(origs):
                present = True
                if cfg.get("presence") == "symbolic" and (cfg.get("presence_params") is None or i in cfg["presence_params"]):
                    present = bool(symx.symbool(f"present_p{i}_s{k}"))
                g.append(H.arr_var(f"g{k}p{i}", s).reshape(-1) if present else None)
            grads_all.append(g)
        base = {k: v for k, v in cfg.items() if k not in ("orig_shapes", "cuts")}
        hp_shared = [None]
        info = dict(cfg=cfg, signature=dict(kind="fsdp-vs-serial", hsdp=bool(hsdp)))
        covered = [np.zeros(int(prod(s)), dtype=int) for s in origs]
        shard_ranks = nranks
        replicas = hsdp["replicate"] if hsdp else 1
        world = shard_ranks * replicas
        sim = torch.distributed.Sim(world)
        results = [None] * world

        def rank_fn(r):
            srank = r % shard_ranks if hsdp else r
            my = cuts[srank]
            shapes = [(e - s,) for (s, e) in my]
            ccfg = dict(base)
            ccfg["params"] = shapes

            def factory(run):
                meta = {p: FSDPParameterMetadata(fqn=f"p{i}", shape=torch.Size(origs[i]), numel=int(prod(origs[i])), start_idx=my[i][0], end_idx=my[i][1],
                                                 sharding_strategy=ShardingStrategy.HYBRID_SHARD if hsdp else ShardingStrategy.FULL_SHARD) for i, p in enumerate(run.params)}
                if hsdp:
                    mesh = torch.distributed.device_mesh.DeviceMesh("cpu", [[q * shard_ranks + t for t in range(shard_ranks)] for q in range(replicas)], mesh_dim_names=("replicate", "shard"))
                    from distributed_shampoo.shampoo_types import CommunicationDType

                    return HSDPShampooConfig(param_to_metadata=meta, device_mesh=mesh, num_trainers_per_group=hsdp.get("group", -1), communicate_params=hsdp.get("communicate_params", False),
                                             communication_dtype=getattr(CommunicationDType, comm_name))
                return FSDPShampooConfig(param_to_metadata=meta)

            ccfg["distributed_config_factory"] = factory
            run = H.OptRun(ccfg, init_values=[flatW[i][s:e] for i, (s, e) in enumerate(my)], hp=hp_shared[0])
            if hp_shared[0] is None:
                hp_shared[0] = run.hp
            out = []
            for k in range(T):
                run.set_grads([None if grads_all[k][i] is None else grads_all[k][i][s:e].copy() for i, (s, e) in enumerate(my)])
                run.impl_step()
                out.append([H.read(p) for p in run.params])
            results[r] = out
            if hsdp:
                from checks.c06 import state_summary

                owners[r] = state_summary(run)
            return True

        owners = [None] * world
        _, errors = sim.run(rank_fn)
        for e in errors:
            if isinstance(e, (symx.PathEnd, symx.Restart, symx.PathViolation, symx.HarnessError)):
                raise e
        bad = [e for e in errors if e is not None]
        if bad:
            symx.prove(f"a shard rank failed: {type(bad[0]).__name__}: {str(bad[0])[:160]}", False, info)
        # ---- oracle: serial optimizer on the recovered sub-tensors of each shard as independent parameters
        for srank in range(shard_ranks):
            my = cuts[srank]
            slabs = []
            for i, (s, e) in enumerate(my):
                for (a, b, tail) in ref_slabs(origs[i], s, e):
                    shp = ((b - a) // max(prod(tail), 1),) + tuple(tail) if tail else (b - a,)
                    slabs.append((i, a, b, shp))
                    covered[i][a:b] += 1
            if not slabs:
                continue
            ocfg = dict(base)
            ocfg["params"] = [shp for (_, _, _, shp) in slabs]
            O = H.OptRun(ocfg, init_values=[flatW[i][a:b].reshape(shp) for (i, a, b, shp) in slabs], hp=hp_shared[0])
            for k in range(T):
                O.set_grads([None if grads_all[k][i] is None else grads_all[k][i][a:b].reshape(shp).copy() for (i, a, b, shp) in slabs])
                e = H.guarded_step(O)
                if e is not None:
                    symx.prove(f"oracle step raised {type(e).__name__}", False, info)
                exp = {}
                for (i, a, b, shp), p in zip(slabs, O.params):
                    vals = H.read(p).reshape(-1)
                    for off, v in enumerate(vals):
                        exp[(i, a + off)] = v
                for rep in range(replicas):
                    r = rep * shard_ranks + srank if hsdp else srank
                    got = results[r][k]
                    for i, (s, e2) in enumerate(my):
                        for off in range(e2 - s):
                            want = exp[(i, s + off)]
                            if low:
                                # reduced precision (one step from a common state): all replicas identical, off the serial result only by the rounding of what is communicated
                                w0 = flatW[i][s + off]
                                want = rnd(want) if hsdp.get("communicate_params", False) else w0 + rnd(want - w0)
                            symx.prove_equal(f"shard rank {srank}{' replica ' + str(rep) if hsdp else ''}: element {s + off} of parameter {i} after step {k + 1} equals the serial optimizer on the recovered block"
                                             + (" up to the rounding of the communicated quantity" if low else ""), got[i][off], want, info)
        if hsdp and not bad:
            from checks.c06 import prove_state_placement

            gsz = hsdp.get("group", -1)
            gsz = replicas if gsz == -1 else gsz
            groups_ = [[(q0 + q) * shard_ranks + t for q in range(gsz)] for t in range(shard_ranks) for q0 in range(0, replicas, gsz)]
            prove_state_placement(groups_, owners, dict(cfg=cfg, signature=dict(kind="state-placement", hsdp=True)))
        for i, c in enumerate(covered):
            symx.prove(f"every element of parameter {i} is updated exactly once across the shard ranks", bool((c == 1).all()), info)
        return "ok"

    return fn, H.default_opts(tier)


def even_cuts(origs, nranks, offsets=None):
    """Flat-parameter style sharding: each parameter's numel split into nranks contiguous ranges (optionally shifted)."""
    out = [[] for _ in range(nranks)]
    for i, s in enumerate(origs):
        n = prod(s)
        bounds = [round(j * n / nranks) for j in range(nranks + 1)] if offsets is None else [0] + list(offsets[i]) + [n]
        for r in range(nranks):
            out[r].append((bounds[r], bounds[r + 1]))
    return out


def jobs_for(tier):
    jobs = []
    n = 0

    def add(orig_shapes, cuts, **kw):
        nonlocal n
        kw2 = dict(assume_generic=True, graft="adagrad", nesterov=True, bias_corr=True, decoupled=True, pf=1, sps=2, T=2, mpd=2, merge=True)
        kw2.update(kw)
        cfg = c01.base_cfg(tier=tier, **kw2)
        cfg["orig_shapes"] = [list(s) for s in orig_shapes]
        cfg["cuts"] = cuts
        jobs.append(dict(id=f"f{n}", module="checks.c07", factory="make", cfg=cfg))
        n += 1

    S34 = [(3, 4)]
    add(S34, even_cuts(S34, 1))
    add(S34, even_cuts(S34, 2, offsets=[[5]]))      # mid-row boundary
    add(S34, even_cuts(S34, 2, offsets=[[4]]))      # row-aligned boundary
    add(S34, even_cuts(S34, 3, offsets=[[1, 11]]))  # single element + mid-row
    add(S34, even_cuts(S34, 3, offsets=[[2, 10]]), graft=None, fixed=dict(mom=0, wd=0))  # a whole number of rows long but starting mid-row
    add([(2, 3), (4,)], even_cuts([(2, 3), (4,)], 2, offsets=[[6], [2]]), graft="adam")  # an empty shard of parameter 0 on rank 1
    add([(2, 2, 3)], even_cuts([(2, 2, 3)], 2, offsets=[[5]]), graft=None, fixed=dict(mom=0))
    add([(2, 3), (3,)], even_cuts([(2, 3), (3,)], 2, offsets=[[4], [1]]), presence="symbolic", graft="sgd", fixed=dict(mom=0, wd=0))
    # a shard strictly inside one leading slice, both ends unaligned, crossing an inner row boundary (order 3)
    add([(2, 2, 3)], even_cuts([(2, 2, 3)], 3, offsets=[[1, 5]]), graft=None, fixed=dict(mom=0, wd=0))
    add([(2, 3, 2)], even_cuts([(2, 3, 2)], 3, offsets=[[7, 10]]), graft="sgd", fixed=dict(mom=0))
    # HSDP: replicate x shard mesh, blocks distributed over the replicate group
    add([(2, 4), (3,)], even_cuts([(2, 4), (3,)], 2, offsets=[[5], [2]]), hsdp=dict(replicate=2, group=-1), graft=None, fixed=dict(mom=0, wd=0))
    add([(2, 4), (3,)], even_cuts([(2, 4), (3,)], 1), hsdp=dict(replicate=2, group=2, communicate_params=True), graft="sgd", fixed=dict(mom=0))
    # reduced-precision communication (one step from a common state): replicas identical, deviation = rounding of the communicated quantity
    add([(2, 4), (3,)], even_cuts([(2, 4), (3,)], 1), hsdp=dict(replicate=2, group=2, comm="BF16"), graft=None, T=1, sps=1, fixed=dict(mom=0))
    add([(2, 4), (3,)], even_cuts([(2, 4), (3,)], 2, offsets=[[5], [2]]), hsdp=dict(replicate=2, group=2, comm="FP16", communicate_params=True), graft="sgd", T=1, sps=1, fixed=dict(mom=0, wd=0))
    # parameter dtype (4 bytes) != communication dtype (2 bytes) with block sizes that are not 64-byte multiples in either: the owner assignment and the
    # buffer layout must come from the same (communication-dtype) sizes
    add([(5, 5), (5,), (4, 3), (4,)], even_cuts([(5, 5), (5,), (4, 3), (4,)], 1), hsdp=dict(replicate=2, group=2, comm="BF16"), graft=None, T=1, sps=1, mpd=5, merge=False,
        fixed=dict(mom=0, wd=0, b1=0), mixed_sizes=True)
    # HSDP with a gradient that comes and goes for a block owned by ONE replica rank while every rank keeps other gradients
    add([(2, 4), (3,), (2,)], even_cuts([(2, 4), (3,), (2,)], 1), hsdp=dict(replicate=2, group=2), presence="symbolic", presence_params=[2], T=3, graft=None,
        fixed=dict(mom=0, wd=0, b1=0), merge=False)
    # a size-1 dimension kept (no merging): the recovered blocks keep the parameter's order
    add([(2, 1, 3)], even_cuts([(2, 1, 3)], 2, offsets=[[4]]), graft=None, merge=False, mpd=3, fixed=dict(mom=0, wd=0))
    add([(1, 4)], even_cuts([(1, 4)], 1), graft="sgd", merge=False, mpd=4, fixed=dict(mom=0))
    # two identical parameters: the middle rank holds the tail of the first and the head of the second (equal numel, different row alignment)
    add([(2, 3), (2, 3)], [[(0, 2), (0, 0)], [(2, 6), (0, 4)], [(6, 6), (4, 6)]], graft=None, mpd=3, fixed=dict(mom=0, wd=0))
    # num_trainers_per_group a proper divisor of the replicate size: several distribution groups inside one replicate group
    add([(2, 4), (3,)], even_cuts([(2, 4), (3,)], 1), hsdp=dict(replicate=2, group=1), graft=None, fixed=dict(mom=0, wd=0))
    if tier == "thorough":
        add([(2, 4), (3,), (2,)], even_cuts([(2, 4), (3,), (2,)], 1), hsdp=dict(replicate=4, group=2), graft="sgd", fixed=dict(mom=0))
        for off in range(1, 12):
            add(S34, even_cuts(S34, 2, offsets=[[off]]), graft=None, fixed=dict(mom=0, wd=0))
        for a_ in range(0, 12):
            for b_ in range(a_ + 1, 13):
                if (b_ - a_) % 4 == 0 and a_ % 4:  # every mid-row start with a length that is a multiple of the row length
                    add(S34, even_cuts(S34, 3, offsets=[[a_, b_]]), graft=None, fixed=dict(mom=0, wd=0))
        add([(2, 3, 2)], even_cuts([(2, 3, 2)], 3, offsets=[[1, 7]]), graft=None, fixed=dict(mom=0, wd=0))  # length = one outer slice, unaligned start
        # every three-way cut 0 <= a <= b <= numel (empty shards included) of an order-2, two order-3 and an order-4 shape; grafting configurations in rotation
        rot = [dict(graft=None, fixed=dict(mom=0, wd=0)), dict(graft="sgd", fixed=dict(mom=0)), dict(graft="adagrad", fixed=dict(mom=0, wd=0)), dict(graft="adam", fixed=dict(wd=0))]
        k = 0
        for shp in ((3, 4), (2, 2, 3), (2, 3, 2), (2, 1, 2, 2)):
            N = prod(shp)
            for a_ in range(0, N + 1):
                for b_ in range(a_, N + 1):
                    # a second, one-element-per-rank parameter keeps every rank busy (a rank without any parameter is rejected by design),
                    # so empty shards of the first parameter are covered as well
                    add([shp, (3,)], even_cuts([shp, (3,)], 3, offsets=[[a_, b_], [1, 2]]), T=1 if k % 3 else 2, **rot[k % 4])
                    k += 1
        add([(2, 2, 3)], even_cuts([(2, 2, 3)], 3, offsets=[[2, 9]]), graft="adam")
        add([(2, 1, 2, 2)], even_cuts([(2, 1, 2, 2)], 2, offsets=[[3]]), graft="rmsprop", fixed=dict(mom=0))
        add([(4, 3)], even_cuts([(4, 3)], 4, offsets=[[2, 6, 7]]), graft=None, fixed=dict(mom=0, wd=0))
        add([(4, 4), (3,)], even_cuts([(4, 4), (3,)], 2, offsets=[[8], [1]]), hsdp=dict(replicate=3, group=3), graft=None, fixed=dict(mom=0, wd=0))  # >= 3 blocks per shard rank
    return jobs


def run(tier, seed, argv):
    from vlib import par
    from vlib.report import Report

    rep = Report("C07", tier, seed)
    jobs = jobs_for(tier)
    if argv:
        jobs = [j for j in jobs if j["id"] in argv]
    rep.bounds = dict(configs=len(jobs), original_shapes="order 1..3 (thorough: 4), <=12 elements", shard_ranks="1..3 (thorough: 4)", boundaries="mid-row, row aligned, single element, empty shard (thorough: every boundary of a 3x4 parameter)",
                      hsdp="replicate 2 (thorough 3) x shard 1..2", steps="T=2")
    rep.assumptions = ["FSDP flat-parameter metadata (shape, numel, start/end of the local shard) is an input built by the harness; compile_fsdp_parameter_metadata reads FSDP internals and is outside the model",
                       "oracle sub-tensors follow the documented recovery (maximal slabs; minimality etc. are C15's subject)", "as C01/C06: real arithmetic, recording stubs, lock-step simulator"]
    rep.validate_standin(6 if tier == "quick" else 24)
    rep.absorb("fsdp", par.run_jobs(jobs, chunk=4))
    return rep.finish("checks.c07")


def replay(record):
    from checks import c07_replay

    return c07_replay.replay(record)
