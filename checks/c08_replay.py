"""Replay of C08 counterexamples on the real torch build: one OS process per rank (gloo, CPU), real DTensor parameters
sharded on dim 0, real FullyShard / HybridShard distributor; compared with the serial optimizer on the local shards."""
from __future__ import annotations

import json
import os
import subprocess
import sys
import tempfile

from checks.c06_replay import _vals, _build, perturb, lowp_problem, dump_state_summary, placement_problems
from checks.c07_replay import _orig_vals


def worker(rank, world, cfgfile, initfile, outfile):
    import torch
    import torch.distributed as dist
    from datetime import timedelta
    from distributed_shampoo.shampoo_types import FullyShardShampooConfig, HybridShardShampooConfig
    from torch.distributed.device_mesh import init_device_mesh
    from torch.distributed.tensor import distribute_tensor, Replicate, Shard

    data = json.load(open(cfgfile))
    cfg, vals = data["cfg"], data["vals"]
    dist.init_process_group("gloo", init_method=f"file://{initfile}", rank=rank, world_size=world, timeout=timedelta(seconds=data["timeout"]))
    origs = [tuple(s) for s in cfg["orig_shapes"]]
    hybrid = cfg.get("hybrid")
    nshard = cfg["shards"]
    if hybrid:
        mesh = init_device_mesh("cpu", (hybrid["replicate"], nshard), mesh_dim_names=("replicate", "shard"))
        plc = [Replicate(), Shard(0)]
        from distributed_shampoo.shampoo_types import CommunicationDType

        dc = HybridShardShampooConfig(device_mesh=mesh, num_trainers_per_group=hybrid.get("group", -1), communicate_params=hybrid.get("communicate_params", False),
                                      communication_dtype=getattr(CommunicationDType, hybrid.get("comm", "FP32")))
    else:
        mesh = init_device_mesh("cpu", (nshard,), mesh_dim_names=("shard",))
        plc = [Shard(0)]
        dc = FullyShardShampooConfig()
    full = [_orig_vals(cfg, vals, "w", i, origs[i]).reshape(origs[i]) for i in range(len(origs))]
    params = [torch.nn.Parameter(distribute_tensor(t, mesh, plc)) for t in full]
    c2 = dict(cfg)
    _, opt = _build(c2, vals, dc, given_params=params)
    for k in range(1, cfg["T"] + 1):
        for i, p in enumerate(params):
            present = not (cfg.get("presence") == "symbolic" and (cfg.get("presence_params") is None or i in cfg["presence_params"]) and not bool(vals.get(f"present_p{i}_s{k}", False)))
            p.grad = distribute_tensor(_orig_vals(cfg, vals, "g", i, origs[i], k).reshape(origs[i]), mesh, plc) if present else None
        opt.step()
    json.dump([p.to_local().detach().tolist() for p in params], open(outfile, "w"))
    dump_state_summary(opt, params, outfile)
    dist.destroy_process_group()


def replay(record):
    import torch
    from checks.c08 import row_split

    info = record.get("info") or {}
    cfg = info["cfg"]
    if cfg.get("row_sizes"):
        return False, "explicit uneven row sizes cannot be produced by distribute_tensor: not replayed"
    vals = _vals(record)
    origs = [tuple(s) for s in cfg["orig_shapes"]]
    hybrid = cfg.get("hybrid")
    low = (hybrid or {}).get("comm", "FP32") in ("BF16", "FP16")
    if low:
        vals = perturb(vals)
    nshard = cfg["shards"]
    world = nshard * (hybrid["replicate"] if hybrid else 1)
    root = os.path.dirname(os.path.dirname(os.path.abspath(__file__)))
    d = tempfile.mkdtemp(prefix="c08replay")
    cfgfile = os.path.join(d, "cfg.json")
    json.dump(dict(cfg=cfg, vals=vals, timeout=20), open(cfgfile, "w"))
    env = dict(os.environ)
    env["PYTHONPATH"] = f"{root}:/repo"
    procs = [subprocess.Popen([sys.executable, "-m", "checks.c08_replay", "worker", str(r), str(world), cfgfile, os.path.join(d, "init"), os.path.join(d, f"out{r}.json")],
                              env=env, stdout=subprocess.PIPE, stderr=subprocess.PIPE, text=True) for r in range(world)]
    problems = []
    for p in procs:
        try:
            p.wait(timeout=60)
        except subprocess.TimeoutExpired:
            p.kill()
            problems.append("a rank hung")
    for r, p in enumerate(procs):
        if p.returncode != 0:
            err = (p.stderr.read() or "").strip().splitlines()
            problems.append(f"rank {r} failed: {err[-1] if err else p.returncode}")
    if not problems and hybrid and (info.get("signature") or {}).get("kind") == "state-placement":
        reps = hybrid["replicate"]
        gsz = reps if hybrid.get("group", -1) == -1 else hybrid["group"]
        problems += placement_problems(d, [[(q0 + q) * nshard + t for q in range(gsz)] for t in range(nshard) for q0 in range(0, reps, gsz)])
    if not problems:
        full = [_orig_vals(cfg, vals, "w", i, origs[i]).reshape(origs[i]) for i in range(len(origs))]
        for srank in range(nshard):
            rows = [row_split(s[0], nshard)[srank] for s in origs]
            idx = [i for i, (a, b) in enumerate(rows) if b > a]
            if not idx:
                continue
            sp = [torch.nn.Parameter(full[i][rows[i][0]:rows[i][1]].clone()) for i in idx]
            c2 = dict(cfg)
            _, opt = _build(c2, vals, None, given_params=sp)
            for k in range(1, cfg["T"] + 1):
                for i, p in zip(idx, sp):
                    present = not (cfg.get("presence") == "symbolic" and (cfg.get("presence_params") is None or i in cfg["presence_params"]) and not bool(vals.get(f"present_p{i}_s{k}", False)))
                    p.grad = _orig_vals(cfg, vals, "g", i, origs[i], k).reshape(origs[i])[rows[i][0]:rows[i][1]].clone() if present else None
                opt.step()
            for rep in range(hybrid["replicate"] if hybrid else 1):
                r = rep * nshard + srank
                got = json.load(open(os.path.join(d, f"out{r}.json")))
                for i, p in zip(idx, sp):
                    g = torch.tensor(got[i], dtype=torch.float64).reshape(p.shape)
                    if low:
                        if got[i] != json.load(open(os.path.join(d, f"out{srank}.json")))[i]:
                            problems.append(f"rank {r}: local shard of parameter {i} differs from replica 0 (replicas not identical)")
                        pr = lowp_problem(g, p.detach(), full[i][rows[i][0]:rows[i][1]], hybrid["comm"], hybrid.get("communicate_params", False))
                        if pr:
                            problems.append(f"rank {r}: local shard of parameter {i}: {pr}")
                        continue
                    if not torch.allclose(g, p.detach(), rtol=1e-6, atol=1e-9):
                        problems.append(f"rank {r}: local shard of parameter {i} differs from the serial optimizer by {(g - p.detach()).abs().max().item():.3e}")
    import shutil

    shutil.rmtree(d, ignore_errors=True)
    return bool(problems), f"real torch DTensor, {world} process(es): " + ("; ".join(problems[:3]) if problems else "every local shard equals the serial optimizer on the local tensors")


if __name__ == "__main__":
    if sys.argv[1] == "worker":
        import logging

        logging.disable(logging.CRITICAL)
        worker(int(sys.argv[2]), int(sys.argv[3]), sys.argv[4], sys.argv[5], sys.argv[6])
