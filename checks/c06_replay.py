"""Replay of C06 counterexamples on the real torch.distributed (gloo backend, CPU, one OS process per rank).

A rank that skips a collective shows up as a hang (bounded by a timeout); a non-collective group
creation is timing dependent, so several attempts are made; a numerical difference is compared with
the serial optimizer run in the parent.  No stubs: the real matrix routines are used on both sides.
"""
from __future__ import annotations

import json
import os
import subprocess
import sys
import tempfile
import time

HPMAP = dict(lr="lr", b1=None, b2=None, b3="beta3", eps="epsilon", wd="weight_decay", mom="momentum", damp="dampening")


def _vals(record):
    out = {}
    for k, v in (record.get("model") or {}).items():
        if isinstance(v, list) and len(v) == 2:
            out[k] = v[0] / v[1]
        elif isinstance(v, (int, float, bool)):
            out[k] = v
    for k, v in (record.get("pins") or {}).items():
        if isinstance(v, list):
            out[k] = v[0] / v[1]
    for k, v in (record.get("pins") or {}).items():
        if isinstance(v, str):
            out[k] = out.get(v, 0.5)
    return out


def perturb(vals):
    """Reduced-precision replays: move parameter / gradient values off the coarse dyadic grid the solver's witness tends to sit on (the symbolic violation is
    generic in the values, rounding being uninterpreted), deterministically."""
    import math

    out = dict(vals)
    for n, (k, v) in enumerate(sorted(vals.items())):
        if isinstance(v, float) and (k.startswith("w") or (k.startswith("g") and "p" in k)) and not k.startswith("wd"):
            out[k] = v * (1.0 + 1e-2 * math.sin(12.9898 * (n + 1))) + 1e-3 * math.cos(78.233 * (n + 1))
    return out


def lowp_problem(got, exp, w0, comm, communicate_params):
    """got/exp/w0: float64 tensors.  With communication in bfloat16/float16 the communicated quantity (the update, or the parameter itself) must be exactly the
    serial quantity rounded to that dtype: neither finer (no rounding / wider dtype) nor coarser."""
    import torch

    dt = torch.bfloat16 if comm == "BF16" else torch.float16
    q_got = got if communicate_params else got - w0
    q_exp = exp if communicate_params else exp - w0
    want = q_exp.to(dt).to(torch.float64)
    tol = 1e-9 * (want.abs() + w0.abs()) + 1e-12
    if ((q_got - want).abs() > tol).any():
        i = int(((q_got - want).abs() - tol).argmax())
        return (f"communicated quantity {q_got.reshape(-1)[i].item():.10g} is not the serial quantity {q_exp.reshape(-1)[i].item():.10g} rounded to {dt} "
                f"({want.reshape(-1)[i].item():.10g})")
    return None


def dump_state_summary(opt, params, outfile):
    """Which blocks hold non-empty Kronecker state on this rank (real DTensor state): written next to the rank's output."""
    owned = []
    for pi, p in enumerate(params):
        for bname, bs in opt.state[p].items():
            if not isinstance(bs, dict):
                continue
            sh = bs.get("shampoo")
            mats = list(getattr(sh, "factor_matrices", ())) if sh is not None else []
            owned.append([pi, str(bname), any(type(t).__name__ == "DTensor" and t.to_local().numel() > 0 for t in mats), len(mats)])
    json.dump(owned, open(outfile + ".state", "w"))


def placement_problems(d, groups):
    """Exactly one rank of every distribution group holds each block's state."""
    probs = []
    st = {}
    for members in groups:
        for r in members:
            f = os.path.join(d, f"out{r}.json.state")
            if r not in st:
                st[r] = json.load(open(f)) if os.path.exists(f) else []
        keys = sorted({(x[0], x[1]) for r in members for x in st[r] if x[3] > 0})
        for pi, bname in keys:
            owners = [r for r in members if any(x[0] == pi and x[1] == bname and x[2] for x in st[r])]
            if len(owners) != 1:
                probs.append(f"state of param {pi} {bname} lives on ranks {owners} of group {list(members)}")
    return probs


def _build(cfg, vals, distributed_config=None, given_params=None):
    import torch
    from distributed_shampoo.distributed_shampoo import DistributedShampoo
    from distributed_shampoo.shampoo_types import AdaGradGraftingConfig, AdamGraftingConfig, RMSpropGraftingConfig, SGDGraftingConfig

    fixed = cfg.get("fixed", {})

    def hp(name, default):
        if name in fixed:
            return float(fixed[name])
        return float(vals.get(name, default))

    g = cfg.get("graft")
    gc = None if g is None else (SGDGraftingConfig() if g == "sgd" else {"adagrad": AdaGradGraftingConfig(epsilon=hp("geps", 0.1)),
                                                                        "rmsprop": RMSpropGraftingConfig(epsilon=hp("geps", 0.1), beta2=min(max(hp("gb2", 0.5), 1e-3), 1.0)),
                                                                        "adam": AdamGraftingConfig(epsilon=hp("geps", 0.1), beta2=min(max(hp("gb2", 0.5), 1e-3), 1.0))}[g])
    params = []
    for i, shape in enumerate(cfg["params"] if given_params is None else []):
        import itertools

        t = torch.zeros(tuple(shape), dtype=torch.float64)
        for idx in itertools.product(*[range(s) for s in shape]):
            t[idx] = float(vals.get(f"w{i}_" + "_".join(map(str, idx)), 0.25 * (1 + sum(idx))))
        params.append(torch.nn.Parameter(t))
    if given_params is not None:
        params = list(given_params)
    b1 = min(max(hp("b1", 0.5), 0.0), 0.99)
    b3 = hp("b3", -1.0)
    opt = DistributedShampoo(params, lr=max(hp("lr", 0.25), 0.0), betas=(b1, min(max(hp("b2", 0.5), 1e-3), 1.0)), beta3=b3 if (b3 == -1.0 or 0 <= b3 < 1) else -1.0,
                             epsilon=max(hp("eps", 0.1), 1e-6), momentum=min(max(hp("mom", 0.0), 0.0), 0.99), dampening=min(max(hp("damp", 0.0), 0.0), 0.99),
                             weight_decay=max(hp("wd", 0.0), 0.0), max_preconditioner_dim=cfg["mpd"], precondition_frequency=cfg["pf"], start_preconditioning_step=cfg["sps"],
                             use_nesterov=cfg["nesterov"], use_bias_correction=cfg["bias_corr"], use_decoupled_weight_decay=cfg["decoupled"], grafting_config=gc,
                             use_merge_dims=cfg.get("merge", True), preconditioner_dtype=torch.float64, distributed_config=distributed_config)
    return params, opt


def _grads(cfg, vals, k):
    import itertools

    import torch

    out = []
    for i, shape in enumerate(cfg["params"]):
        if cfg.get("presence") == "symbolic" and (cfg.get("presence_params") is None or i in cfg["presence_params"]) and not bool(vals.get(f"present_p{i}_s{k}", False)):
            out.append(None)
            continue
        t = torch.zeros(tuple(shape), dtype=torch.float64)
        for idx in itertools.product(*[range(s) for s in shape]):
            t[idx] = float(vals.get(f"g{k}p{i}_" + "_".join(map(str, idx)), 0.5 - 0.125 * sum(idx) + 0.0625 * k))
        out.append(t)
    return out


def worker(rank, world, cfgfile, initfile, outfile):
    import torch
    import torch.distributed as dist
    from datetime import timedelta
    from distributed_shampoo.shampoo_types import CommunicationDType, DDPShampooConfig

    data = json.load(open(cfgfile))
    cfg, vals = data["cfg"], data["vals"]
    dist.init_process_group("gloo", init_method=f"file://{initfile}", rank=rank, world_size=world, timeout=timedelta(seconds=data["timeout"]))
    dc = DDPShampooConfig(communication_dtype=getattr(CommunicationDType, cfg.get("comm", "FP32")), num_trainers_per_group=cfg["group"], communicate_params=cfg.get("communicate_params", False))
    params, opt = _build(cfg, vals, dc)
    for k in range(1, cfg["T"] + 1):
        for p, g in zip(params, _grads(cfg, vals, k)):
            p.grad = g
        opt.step()
    json.dump([p.detach().tolist() for p in params], open(outfile, "w"))
    dump_state_summary(opt, params, outfile)
    dist.destroy_process_group()


def replay(record):
    import torch

    info = record.get("info") or {}
    cfg = info["cfg"]
    kind = (info.get("signature") or {}).get("kind")
    vals = _vals(record)
    if cfg.get("comm", "FP32") in ("BF16", "FP16"):
        vals = perturb(vals)
    world = cfg["world"]
    # serial oracle
    params, opt = _build(cfg, vals)
    start = [p.detach().clone() for p in params]
    for k in range(1, cfg["T"] + 1):
        for p, g in zip(params, _grads(cfg, vals, k)):
            p.grad = g
        opt.step()
    serial = [p.detach() for p in params]
    attempts = 6 if kind == "non-collective-group-creation" else 2
    timeout = 15
    root = os.path.dirname(os.path.dirname(os.path.abspath(__file__)))
    problems = []
    for att in range(attempts):
        d = tempfile.mkdtemp(prefix="c06replay")
        cfgfile = os.path.join(d, "cfg.json")
        json.dump(dict(cfg={k: v for k, v in cfg.items() if k != "distributed_config_factory"}, vals=vals, timeout=timeout), open(cfgfile, "w"))
        env = dict(os.environ)
        env["PYTHONPATH"] = f"{root}:/repo"
        procs = [subprocess.Popen([sys.executable, "-m", "checks.c06_replay", "worker", str(r), str(world), cfgfile, os.path.join(d, "init"), os.path.join(d, f"out{r}.json")],
                                  env=env, stdout=subprocess.PIPE, stderr=subprocess.PIPE, text=True) for r in range(world)]
        t0 = time.time()
        hung = False
        for p in procs:
            try:
                p.wait(timeout=max(1, timeout + 20 - (time.time() - t0)))
            except subprocess.TimeoutExpired:
                hung = True
        for p in procs:
            if p.poll() is None:
                p.kill()
        rcs = [p.returncode for p in procs]
        errs = [(p.stderr.read() or "")[-300:] for p in procs]
        if hung or any(rc not in (0,) for rc in rcs):
            which = [r for r, rc in enumerate(rcs) if rc != 0]
            problems.append(f"attempt {att + 1}: ranks {which} did not finish (hang/timeout or error in a collective): {[e.strip().splitlines()[-1] if e.strip() else '' for e in errs][:world]}")
        else:
            if kind == "state-placement":
                G = cfg["group"]
                problems += [f"attempt {att + 1}: {x}" for x in placement_problems(d, [list(range(g0, g0 + G)) for g0 in range(0, world, G)])]
            low = cfg.get("comm", "FP32") in ("BF16", "FP16")
            outs = [json.load(open(os.path.join(d, f"out{r}.json"))) for r in range(world)]
            for r in range(world):
                got = outs[r]
                for pi, (a, b) in enumerate(zip(got, serial)):
                    ta = torch.tensor(a, dtype=torch.float64)
                    if low:
                        # replicas must be bit-identical; the deviation from serial is bounded by the rounding of the communicated quantity
                        if a != outs[0][pi]:
                            problems.append(f"attempt {att + 1}: rank {r} param {pi} differs from rank 0 (replicas not identical)")
                            break
                        pr = lowp_problem(ta.reshape(b.shape), b, start[pi], cfg["comm"], cfg.get("communicate_params", False))
                        if pr:
                            problems.append(f"attempt {att + 1}: rank {r} param {pi}: {pr}")
                            break
                    elif not torch.allclose(ta, b, rtol=1e-6, atol=1e-9):
                        problems.append(f"attempt {att + 1}: rank {r} param {pi} differs from the serial run by {(ta - b).abs().max().item():.3e}")
                        break
        import shutil

        shutil.rmtree(d, ignore_errors=True)
        if problems:
            break
    return bool(problems), f"real gloo, world {world}, group {cfg['group']}: " + ("; ".join(problems[:2]) if problems else f"{attempts} attempt(s) finished and every rank equals the serial run")


if __name__ == "__main__":
    if sys.argv[1] == "worker":
        import logging

        logging.disable(logging.CRITICAL)
        worker(int(sys.argv[2]), int(sys.argv[3]), sys.argv[4], sys.argv[5], sys.argv[6])
