"""C02 -- warm-up equals the grafted torch.optim optimizer; afterwards its step norm is kept.

Part 1: the real DistributedShampoo with start_preconditioning_step > T runs symbolically next to
reference models of torch.optim.{SGD,Adagrad,RMSprop,Adam,AdamW} (specs/torch_optim_ref.py, which
are validated against the real torch.optim classes on every run); parameters must be equal after
every step for all hyperparameter values, whatever the blocking / merging.
Part 2 (norm transfer): at steps >= start, with S the recorded Shampoo direction of a block, G the
recorded grafted direction and D the direction actually returned, z3 proves D_j*(|S|+d) = |G|*S_j
with d the calibrated guard in [0,1e-12]; a side lemma (also z3) turns this into collinearity,
same orientation and (1-1e-9)|G| <= |D| <= |G| whenever |S| >= 1e-3.
"""
from __future__ import annotations

import json
import os
import subprocess

import numpy as np

from specs import torch_optim_ref as TR
from vlib import symx, optharness as H

TARGETS = {
    "sgd": dict(graft="sgd", decoupled=False, bias_corr=False, fixed=dict(b1=0, damp=0)),
    "adagrad": dict(graft="adagrad", decoupled=False, bias_corr=False, fixed=dict(b1=0, b2=1, mom=0)),
    "rmsprop": dict(graft="rmsprop", decoupled=False, bias_corr=False, fixed=dict(b1=0, mom=0)),
    "adam": dict(graft="adam", decoupled=False, bias_corr=True, fixed=dict(b3=-1, mom=0)),
    "adamw": dict(graft="adam", decoupled=True, bias_corr=True, fixed=dict(b3=-1, mom=0)),
}


def make(cfg):
    T = cfg["T"]
    target = cfg["target"]
    tier = cfg.get("tier", "quick")

    def fn():
        run = H.OptRun(cfg)
        hp = run.hp
        info = run._sig("warmup-vs-torch-optim", target=target)
        if H.IS_SYM and target in ("rmsprop", "adam", "adamw") and hp["gb2"].c is None:
            # beta2 = 1 selects Shampoo's documented AdaGrad-style unweighted sum, which torch's alpha/beta2 = 1 is not:
            # outside "the range where the two formulations are mathematically identical"
            symx.CTX.assume(hp["gb2"].n != 1)
        states = [TR.State(tuple(s), H.zero()) for s in cfg["params"]]
        P = [w.copy() for w in run.W0]
        mom_nonzero = bool(hp["mom"] != 0.0) if target == "sgd" else False
        for k in range(1, T + 1):
            grads = []
            for i, s in enumerate(cfg["params"]):
                present = True
                if cfg.get("presence") == "symbolic":
                    present = bool(symx.symbool(f"present_p{i}_s{k}"))
                grads.append(H.arr_var(f"g{k}p{i}", tuple(s)) if present else None)
            symx.CTX.events.append(f"step {k}: present={[g is not None for g in grads]}")
            run.set_grads(grads)
            e = H.guarded_step(run)
            if e is not None:
                symx.prove(f"step() does not raise ({type(e).__name__}: {str(e)[:80]})", False, info)
            for i, g in enumerate(grads):
                if g is None:
                    continue
                st = states[i]
                if target == "sgd":
                    P[i] = TR.sgd(P[i], g, st, hp["lr"], hp["mom"], hp["wd"], cfg["nesterov"], mom_nonzero)
                elif target == "adagrad":
                    P[i] = TR.adagrad(P[i], g, st, hp["lr"], hp["geps"], hp["wd"])
                elif target == "rmsprop":
                    P[i] = TR.rmsprop(P[i], g, st, hp["lr"], hp["gb2"], hp["geps"], hp["wd"])
                else:
                    # torch Adam uses one beta2 for the second moment: Shampoo's grafting beta2
                    P[i] = TR.adam(P[i], g, st, hp["lr"], hp["b1"], hp["gb2"], hp["geps"], hp["wd"], target == "adamw")
            for i, p in enumerate(run.params):
                got = H.read(p)
                if not isinstance(P[i], np.ndarray):  # 0-d arrays decay to scalars in numpy arithmetic
                    a0 = np.empty((), dtype=object)
                    a0[()] = P[i]
                    P[i] = a0
                for idx in np.ndindex(*got.shape) if got.ndim else [()]:
                    symx.prove_equal(f"warm-up trajectory equals torch.optim.{target} (param {i}{list(idx)} step {k})", got[idx], P[i][idx], info)
            symx.prove("no inverse root is computed during warm-up", len(run.inv_stub.calls) == 0, info)
        return "ok"

    return fn, H.default_opts(tier)


def make_norm(cfg):
    T = cfg["T"]
    tier = cfg.get("tier", "quick")
    twin = cfg.get("twin")

    def fn():
        run = H.OptRun(cfg)
        info = run._sig("norm-transfer")
        sl = run.opt._per_group_state_lists[0]
        from distributed_shampoo.shampoo_types import GRAFTING_PRECONDITIONER_LIST, SHAMPOO_PRECONDITIONER_LIST

        rec = dict(S=None, G=None, D=None)
        shp, gr = sl[SHAMPOO_PRECONDITIONER_LIST], sl[GRAFTING_PRECONDITIONER_LIST]
        if not (hasattr(shp, "precondition") and hasattr(gr, "precondition") and hasattr(run.opt, "_precondition_and_grafting")):
            # the three directions are observed through these methods; if a refactoring renamed them the clause is not observable from outside
            # (C01's reference comparison still decides the applied update)
            symx.CTX.events.append("norm transfer: precondition()/_precondition_and_grafting not found, section skipped")
            return "skipped"
        o_s, o_g, o_pg = shp.precondition, gr.precondition, run.opt._precondition_and_grafting

        def w_s(*a, **k):
            r = o_s(*a, **k)
            rec["S"] = [H.read(t) for t in r]
            return r

        def w_g(*a, **k):
            r = o_g(*a, **k)
            rec["G"] = [H.read(t) for t in r]
            return r

        def w_pg(*a, **k):
            rec["S"] = rec["G"] = None
            r = o_pg(*a, **k)
            rec["D"] = [H.read(t) for t in r]
            return r

        shp.precondition, gr.precondition, run.opt._precondition_and_grafting = w_s, w_g, w_pg
        delta = run.delta
        for k in range(1, T + 1):
            grads = [H.arr_var(f"g{k}p{i}", tuple(s)) for i, s in enumerate(cfg["params"])]
            run.set_grads(grads)
            e = H.guarded_step(run)
            if e is not None:
                symx.prove(f"step() does not raise ({type(e).__name__})", False, info)
            run.ref_step(grads, check_calls=False)
            # the recorded directions come from the implementation itself: anchor them in the reference model (parameters and all state), so that a
            # grafted direction computed from a corrupted input cannot satisfy the norm identity among the implementation's own quantities only
            run.compare_state()
            run.compare_params()
            if k >= run.rcfg["sps"]:
                symx.prove("both directions are computed at a preconditioned step", rec["S"] is not None and rec["G"] is not None, info)
                for b, (S, G, D) in enumerate(zip(rec["S"], rec["G"], rec["D"])):
                    s = symx.norm2(list(S.reshape(-1))) if H.IS_SYM else float(np.sqrt(sum(float(x) ** 2 for x in S.reshape(-1))))
                    g = symx.norm2(list(G.reshape(-1))) if H.IS_SYM else float(np.sqrt(sum(float(x) ** 2 for x in G.reshape(-1))))
                    if twin == "wrong-norm":
                        g = g * 2
                    for j, (dj, sj) in enumerate(zip(D.reshape(-1), S.reshape(-1))):
                        symx.prove_equal(f"applied direction = Shampoo direction rescaled to the grafted norm (block {b} entry {j} step {k})",
                                         dj * (s + delta), g * sj, info)
            else:
                symx.prove("warm-up uses the grafted direction only", rec["S"] is None, info)
            if cfg.get("rebase") and k < T:
                run.rebase()
        return "ok"

    return fn, H.default_opts(tier)


def side_lemma():
    """For all reals: c*(s+d) = g, g >= 0, s >= 1e-3, 0 <= d <= 1e-12  =>  c >= 0 and (1-1e-9)*g <= c*s <= g   (|D| = c*|S|)."""
    import z3

    c, s, d, g = z3.Reals("c s d g")
    hyp = z3.And(c * (s + d) == g, g >= 0, s >= z3.RealVal("1/1000"), d >= 0, d <= z3.RealVal("1/1000000000000"))
    concl = z3.And(c >= 0, c * s <= g, c * s >= (1 - z3.RealVal("1/1000000000")) * g)
    sv = z3.Solver()
    sv.set("timeout", 60000)
    sv.add(hyp, z3.Not(concl))
    return str(sv.check())


def jobs_for(tier):
    jobs = []
    n = 0
    layouts = [dict(params=[(2, 3)], mpd=2, merge=False), dict(params=[(2, 2), (3,)], mpd=4, merge=True), dict(params=[(2, 1, 2)], mpd=2, merge=True)]
    if tier == "thorough":
        layouts += [dict(params=[(2, 2, 2)], mpd=2, merge=False), dict(params=[(4,), ()], mpd=3, merge=True), dict(params=[(3, 2)], mpd=1, merge=False)]
    for target, base in TARGETS.items():
        for li, lay in enumerate(layouts):
            for nes in ((False, True) if target == "sgd" else (False,)):
                cfg = dict(base)
                cfg.update(lay)
                cfg.update(target=target, nesterov=nes, T=2 if tier == "quick" else 3, pf=1, sps=10, tier=tier)
                if target in ("sgd", "adagrad", "rmsprop"):
                    # with beta1 = 0 the bias-correction flag is inside the range where the formulations coincide: both values must match torch.optim
                    cfg["bias_corr"] = (li % 2 == 1)
                if target in ("sgd", "adagrad", "rmsprop") and li == 1:
                    cfg["presence"] = "symbolic"
                    cfg["T"] = 3  # present / absent / present again needs three steps
                    cfg["assume_generic"] = True
                jobs.append(dict(id=f"w{n}", module="checks.c02", factory="make", cfg=cfg))
                n += 1
    njobs = []
    m = 0
    for graft in ("sgd", "adagrad", "rmsprop", "adam"):
        for lay in layouts[: (2 if tier == "quick" else len(layouts))]:
            cfg = dict(lay)
            cfg.update(graft=graft, nesterov=False, bias_corr=(graft == "adam"), decoupled=True, pf=1, sps=2, T=3, rebase=True, tier=tier)
            njobs.append(dict(id=f"n{m}", module="checks.c02", factory="make_norm", cfg=cfg))
            m += 1
        # a block without any preconditioned dimension (the 1-d parameter with its only dimension ignored): precondition() hands its input back
        cfg = dict(params=[(2, 3), (3,)], mpd=4, merge=False, ignored_dims=[0])
        cfg.update(graft=graft, nesterov=False, bias_corr=(graft == "adam"), decoupled=True, pf=1, sps=1, T=2, rebase=True, tier=tier, fixed=dict(mom=0))
        njobs.append(dict(id=f"n{m}", module="checks.c02", factory="make_norm", cfg=cfg))
        m += 1
    return jobs, njobs


def run(tier, seed, argv):
    from vlib import par
    from vlib.report import Report, PY, ROOT

    rep = Report("C02", tier, seed)
    jobs, njobs = jobs_for(tier)
    rep.bounds = dict(warmup_configs=len(jobs), norm_transfer_configs=len(njobs), steps="T=2 (quick) / 3 (thorough) warm-up; T=3 re-based for norm transfer",
                      shapes="<= 8 elements, blocked / merged / several parameters", hyperparameters="symbolic over the documented domain")
    rep.assumptions = ["real arithmetic stands in for floating point", "torch.optim reference models validated against the real classes on concrete float64 problems (this run)",
                       "SGD: dampening = 0; Adam variants: every gradient present (one step counter per group)",
                       "norm transfer: the guard d is calibrated from the implementation and must lie in [0, 1e-12]; the sandwich follows from the proved identity by the z3 side lemma"]
    # translator validation of the reference models on the real torch build
    env = dict(os.environ)
    env["PYTHONPATH"] = f"{ROOT}:/repo"
    p = subprocess.run([PY, "-m", "specs.torch_optim_ref", "30", str(seed)], env=env, capture_output=True, text=True)
    try:
        val = json.loads(p.stdout.strip().splitlines()[-1])
    except Exception:
        val = dict(cases=0, max_abs_error=float("inf"), error=(p.stdout + p.stderr)[-400:])
    rep.extra["torch_optim_reference_validation"] = val
    rep.validated_traces = val.get("cases", 0)
    if p.returncode != 0:
        rep.harness_errors.append(dict(job="validation", why=f"torch.optim reference models disagree with torch: {val}"))
    lem = side_lemma()
    rep.extra["norm_sandwich_side_lemma"] = lem
    if lem != "unsat":
        rep.harness_errors.append(dict(job="lemma", why=f"side lemma not proved: {lem}"))
    rep.validate_standin(6 if tier == "quick" else 24)
    rep.absorb("warm-up", par.run_jobs(jobs, chunk=4))
    rep.absorb("norm-transfer", par.run_jobs(njobs, chunk=4))
    tw = par.run_jobs([dict(id="twin0", module="checks.c02", factory="make_norm",
                            cfg=dict(params=[(2, 2)], mpd=2, merge=False, graft="sgd", nesterov=False, bias_corr=False, decoupled=True, pf=1, sps=1, T=1, twin="wrong-norm",
                                     fixed=dict(wd=0, mom=0, b1=0)))])
    rep.twin_expected = 1
    rep.twin_sat = int(any(x["status"] == "violation" for r in tw.values() for x in r["records"]))
    return rep.finish("checks.c02")


def replay(record):
    cfg = (record.get("info") or {}).get("cfg") or {}
    return H.replay_record(record, make if "target" in cfg else make_norm)
