"""C15 -- shard-to-tensor-block recovery yields the fewest valid sub-tensors, as views.

Both copies of `_split_tensor_block_recovery` (FSDP and HSDP distributor) are executed on an
*abstract flat tensor* whose offset and length are z3 integers: `start <= end` are symbolic, the
original shape is enumerated.  Per path the returned pieces are checked against the defining
relations (ordered partition of [start,end), each piece a slab k x shape[d+1:] aligned to
prod(shape[d+1:]) inside one index of the leading dims, views only), minimality is a z3 query for
a decomposition with fewer slabs, and the two copies must agree.
"""
from __future__ import annotations

import itertools
from math import prod

import z3

from vlib import symx
from vlib.symx import SymInt, SymBool


class AbsFlat:
    """A 1-d view [off, off+length) of the shard; offsets relative to the shard start."""

    def __init__(self, off, length, copied=False):
        self.off, self.length, self.copied = off, length, copied

    def size(self, d=None):
        return (self.length,) if d is None else self.length

    @property
    def shape(self):
        return (self.length,)

    def dim(self):
        return 1

    def numel(self):
        return self.length

    def narrow(self, dim, start, length):
        if dim != 0:
            raise RuntimeError("narrow on dim != 0 of a flat tensor")
        if not (start >= 0) or not (length >= 0) or not (start + length <= self.length):
            raise RuntimeError("start + length exceeds dimension size")
        return AbsFlat(self.off + start, length, self.copied)

    def narrow_copy(self, dim, start, length):
        v = self.narrow(dim, start, length)
        return AbsFlat(v.off, v.length, True)

    def view(self, *shape):
        if len(shape) == 1 and not isinstance(shape[0], (int, SymInt)):
            shape = tuple(shape[0])
        tail = [s for s in shape if not (isinstance(s, int) and s == -1)]
        if len(tail) != len(shape) - 1:
            if prod(shape) != self.length:
                raise RuntimeError("view: shape is invalid for input size")
            return AbsPiece(self.off, self.length, tuple(shape[1:]), self.copied, lead=shape[0])
        t = prod(tail)
        if t == 0 or not (self.length % t == 0):
            raise RuntimeError("view: shape is invalid for input size")
        return AbsPiece(self.off, self.length, tuple(tail), self.copied)

    def reshape(self, *shape):
        return self.view(*shape)

    def clone(self):
        return AbsFlat(self.off, self.length, True)

    contiguous = clone

    def detach(self):
        return self

    def __getitem__(self, idx):
        raise symx.HarnessError("slicing of the abstract shard is not modelled")


class AbsPiece:
    def __init__(self, off, length, tail, copied, lead=None):
        self.off, self.length, self.tail, self.copied = off, length, tail, copied


def _piece(p):
    if isinstance(p, AbsFlat):
        return (p.off, p.length, None, p.copied)  # flat piece: a run inside the last dimension
    return (p.off, p.length, tuple(p.tail), p.copied)


def _e(x):
    return x.e if isinstance(x, SymInt) else z3.IntVal(int(x))


def slab_ok(shape, s_abs, ln, d):
    """z3: [s_abs, s_abs+ln) is a slab k x shape[d+1:] inside a single index of dims < d."""
    T = prod(shape[d + 1:])
    R = prod(shape[d:])
    return z3.And(ln > 0, s_abs % T == 0, ln % T == 0, s_abs / R == (s_abs + ln - 1) / R)


def check_pieces(tag, shape, start, end, pieces, info):
    order = len(shape)
    n = len(pieces)
    S, E = _e(start), _e(end)
    pos = z3.IntVal(0)
    items = []
    for i, (off, ln, tail, copied) in enumerate(pieces):
        items.append((f"{tag}:view-not-copy", not copied))
        items.append((f"{tag}:ordered-partition", z3.And(_e(off) == pos, _e(ln) > 0)))
        pos = pos + _e(ln)
        if order == 0:
            items.append((f"{tag}:slab", _e(ln) == 1))
            continue
        if tail is None:
            d = order - 1
        else:
            cands = [d for d in range(order) if tuple(shape[d + 1:]) == tuple(tail)]
            if not cands:
                symx.prove(f"{tag}:piece-shape-is-a-tail-of-the-original-shape", False, info)
            d = cands[0]
        items.append((f"{tag}:slab", slab_ok(shape, S + _e(off), _e(ln), d)))
    items.append((f"{tag}:covers-range", pos == E - S))
    symx.prove_batch(items, info)
    # minimality: no decomposition of [start,end) into fewer valid slabs
    if n >= 2 and order >= 1:
        m = n - 1
        cuts = [z3.Int(f"cut{j}") for j in range(m + 1)]
        cons = [cuts[0] == S, cuts[m] == E]
        for j in range(m):
            ln = cuts[j + 1] - cuts[j]
            cons.append(ln >= 0)
            cons.append(z3.Or(ln == 0, *[slab_ok(shape, cuts[j], ln, d) for d in range(order)]))
        symx.prove(f"{tag}:minimal", z3.Not(z3.And(cons)), info)


def make(cfg):
    shape = tuple(cfg["shape"])
    twin = cfg.get("twin")

    def fn():
        from distributed_shampoo.utils.shampoo_fsdp_distributor import FSDPDistributor
        from distributed_shampoo.utils.shampoo_hsdp_distributor import HSDPDistributor
        import torch

        N = prod(shape)
        start, end = symx.symint("start"), symx.symint("end")
        symx.CTX.assume(z3.And(start.e >= 0, start.e <= end.e, end.e <= N))
        info = dict(signature=dict(kind="split-recovery"), cfg=cfg)
        outs = []
        for tag, cls in (("fsdp", FSDPDistributor), ("hsdp", HSDPDistributor)):
            shard = AbsFlat(0, end - start)
            try:
                res = cls._split_tensor_block_recovery(shard, torch.Size(shape), start, end)
            except (RuntimeError, AssertionError) as e:
                symx.prove(f"{tag}:no-exception ({type(e).__name__}: {str(e)[:60]})", False, info)
            pcs = [_piece(p) for p in res]
            if twin == "drop-minimality" and len(pcs) >= 1:
                # twin: pretend the routine split its first piece in two -> minimality must be refuted
                off, ln, tail, cp = pcs[0]
                T = prod(tail) if tail else 1
                if (ln >= 2 * T) if isinstance(ln, int) else bool(ln >= 2 * T):
                    pcs = [(off, T, tail, cp), (off + T, ln - T, tail, cp)] + pcs[1:]
            symx.CTX.events.append(f"{tag}: {len(pcs)} pieces, tails={[p[2] for p in pcs]}")
            if bool(end == start):
                symx.prove(f"{tag}:empty-range-yields-nothing", len(pcs) == 0, info)
            check_pieces(tag, shape, start, end, pcs, info)
            outs.append(pcs)
        a, b = outs
        symx.prove("copies-agree:count", len(a) == len(b), info)
        symx.prove_batch([("copies-agree:piece", z3.And(_e(o1) == _e(o2), _e(l1) == _e(l2), z3.BoolVal(t1 == t2)))
                          for (o1, l1, t1, _), (o2, l2, t2, _) in zip(a, b)], info)
        return len(a)

    return fn, dict(query_timeout_ms=20000, no_pins=True, cvc5_fallback=True)


def shapes_for(tier):
    maxd = 3 if tier == "quick" else 4
    maxo = 3 if tier == "quick" else 4
    out = [()]
    for o in range(1, maxo + 1):
        out += list(itertools.product(range(1, maxd + 1), repeat=o))
    if tier == "quick":
        out += [(2, 3, 2, 2), (3, 1, 2, 3), (4, 5), (5, 4, 3), (1, 1, 4, 2), (2, 2, 1, 2, 2)]
    else:
        out += [(5, 5), (5, 4, 5), (2, 5, 3, 2), (6, 7), (7, 3, 5), (2, 2, 2, 2, 2), (2, 1, 2, 3, 2), (3, 2, 2, 2, 2), (2, 2, 1, 2, 2), (1, 2, 3, 2, 2)]
    return out


def nonflat_rejected():
    """A non-flat shard must be rejected (concrete)."""
    import torch
    from distributed_shampoo.utils.shampoo_fsdp_distributor import FSDPDistributor
    from distributed_shampoo.utils.shampoo_hsdp_distributor import HSDPDistributor

    out = []
    # shards of every non-flat kind, empty ones included (a rank that owns nothing of a parameter still holds a FLAT empty shard)
    shapes = ((2, 3), (1, 1), (0, 3), (2, 0), (0, 0, 5), (), (1, 2, 1))
    for cls in (FSDPDistributor, HSDPDistributor):
        verdict = "ValueError"
        for shp in shapes:
            numel = 1
            for d in shp:
                numel *= d
            try:
                cls._split_tensor_block_recovery(torch.zeros(shp), torch.Size(shp if shp else (1,)), 0, numel)
                verdict = f"accepted shape {shp}"
                break
            except ValueError:
                pass
        out.append(verdict)
    return out


def concrete_views(tier):
    """On the stand-in's concrete tensors: pieces write through to the shard (aliasing) -- exhaustive for small shapes."""
    import torch
    from distributed_shampoo.utils.shampoo_fsdp_distributor import FSDPDistributor
    from distributed_shampoo.utils.shampoo_hsdp_distributor import HSDPDistributor

    n = 0
    bad = []
    symx.CTX.mode = "concrete"
    try:
        for shape in [(2, 3), (3, 2, 2), (2, 2, 3)]:
            N = prod(shape)
            for s in range(N + 1):
                for e in range(s, N + 1):
                    for cls in (FSDPDistributor, HSDPDistributor):
                        shard = torch.tensor([float(i) for i in range(s, e)], dtype=torch.float64) if e > s else torch.zeros(0, dtype=torch.float64)
                        pcs = cls._split_tensor_block_recovery(shard, torch.Size(shape), s, e)
                        for p in pcs:
                            p.add_(1000.0)
                        got = [float(x) for x in shard.a.reshape(-1)]
                        if got != [float(i) + 1000.0 for i in range(s, e)]:
                            bad.append((shape, s, e, cls.__name__))
                        n += 1
    finally:
        symx.CTX.mode = "symbolic"
    return n, bad


def run(tier, seed, argv):
    from vlib import par
    from vlib.report import Report

    rep = Report("C15", tier, seed)
    shapes = shapes_for(tier)
    rep.bounds = dict(shapes=len(shapes), orders="0..3 exhaustively (+ samples of order 4 and 5)" if tier == "quick" else "0..4 exhaustively (+ samples of order 5)", max_dim=3 if tier == "quick" else 4,
                      start_end="symbolic integers 0 <= start <= end <= numel (all values)", copies="FSDPDistributor and HSDPDistributor")
    rep.assumptions = ["the shard is modelled as an abstract flat tensor supporting narrow/view (views by construction) and clone/contiguous (marked as copies)",
                       "original shapes are enumerated up to the stated bound; dims beyond it are outside the claim"]
    jobs = [dict(id=f"s{'x'.join(map(str, s)) or 'scalar'}", module="checks.c15", factory="make", cfg=dict(shape=list(s))) for s in shapes]
    res = par.run_jobs(jobs, chunk=16)
    rep.absorb("recovery", res)
    tw = par.run_jobs([dict(id="twin0", module="checks.c15", factory="make", cfg=dict(shape=[3, 2], twin="drop-minimality"))])
    rep.twin_expected = 1
    rep.twin_sat = sum(1 for r in tw.values() if any(x["status"] == "violation" and "minimal" in x["violation"]["label"] for x in r["records"]))
    nf = nonflat_rejected()
    rep.extra["non_flat_input"] = nf
    if nf != ["ValueError", "ValueError"]:
        rep.violations.append(dict(label="non-flat-shard-rejected", info=dict(signature=dict(kind="non-flat"), cfg={}), model={}, job="concrete"))
    n, bad = concrete_views(tier)
    rep.extra["aliasing_cases_checked"] = n
    rep.validated_traces = n
    if bad:
        rep.violations.append(dict(label="pieces-are-views", info=dict(signature=dict(kind="copy"), cfg=dict(case=bad[0])), model={}, job="concrete"))
    return rep.finish("checks.c15")


# ------------------------------------------------------------------------------------------ replay (real torch)
def _min_slabs(shape, s, e):
    order = len(shape)
    INF = 10**9
    best = {s: 0}
    for p in range(s, e):
        if p not in best:
            continue
        for q in range(p + 1, e + 1):
            ok = False
            for d in range(order):
                T, R = prod(shape[d + 1:]), prod(shape[d:])
                if p % T == 0 and (q - p) % T == 0 and p // R == (q - 1) // R:
                    ok = True
                    break
            if ok and best[p] + 1 < best.get(q, INF):
                best[q] = best[p] + 1
    return best.get(e, INF) if e > s else 0


def replay(record):
    import torch
    from distributed_shampoo.utils.shampoo_fsdp_distributor import FSDPDistributor
    from distributed_shampoo.utils.shampoo_hsdp_distributor import HSDPDistributor

    info = record.get("info") or {}
    kind = (info.get("signature") or {}).get("kind")
    if kind == "non-flat":
        nf = nonflat_rejected()
        return nf != ["ValueError", "ValueError"], f"non-flat input: {nf}"
    cfg = info.get("cfg", {})
    if kind == "copy":
        shape, s, e, _ = cfg["case"]
    else:
        shape = tuple(cfg["shape"])
        m = record.get("model", {})
        s, e = int(m.get("start", 0)), int(m.get("end", 0))
    shape = tuple(shape)
    N = prod(shape)
    full = torch.arange(N, dtype=torch.float64)
    problems = []
    results = []
    for cls in (FSDPDistributor, HSDPDistributor):
        shard = full[s:e]
        try:
            pcs = cls._split_tensor_block_recovery(shard, torch.Size(shape), s, e)
        except Exception as ex:
            problems.append(f"{cls.__name__} raised {ex!r}")
            continue
        pos = s
        for p in pcs:
            if p.numel() == 0 or p.untyped_storage().data_ptr() != full.untyped_storage().data_ptr():
                problems.append(f"{cls.__name__}: empty piece or copy")
            if p.storage_offset() != pos or not p.is_contiguous():
                problems.append(f"{cls.__name__}: piece at offset {p.storage_offset()} expected {pos}")
            ln = p.numel()
            order = len(shape)
            if order:
                ds = [d for d in range(order) if tuple(shape[d + 1:]) == tuple(p.shape[1:])] if p.dim() > 1 or order == 1 else [order - 1]
                if not ds:
                    problems.append(f"{cls.__name__}: piece shape {tuple(p.shape)} is not k x a tail of {shape}")
                else:
                    d = ds[0]
                    T, R = prod(shape[d + 1:]), prod(shape[d:])
                    if pos % T or ln % T or pos // R != (pos + ln - 1) // R:
                        problems.append(f"{cls.__name__}: piece [{pos},{pos + ln}) is not a slab at dim {d}")
            pos += ln
        if pos != e:
            problems.append(f"{cls.__name__}: pieces end at {pos}, expected {e}")
        if len(shape) and len(pcs) != _min_slabs(shape, s, e):
            problems.append(f"{cls.__name__}: {len(pcs)} pieces, minimum is {_min_slabs(shape, s, e)}")
        results.append([(p.storage_offset(), tuple(p.shape)) for p in pcs])
    if len(results) == 2 and results[0] != results[1]:
        problems.append("FSDP and HSDP copies disagree")
    return bool(problems), f"shape={shape} start={s} end={e}: " + ("; ".join(problems) if problems else "all relations hold")
