"""C17 on the real torch build: boundary / interior / just-outside / non-finite values of every hyperparameter, one at a time (and the documented
coupled pairs two at a time), around both baselines and for every grafting type, through the real constructor; raise <=> outside the documented domain.
Run as a subprocess without the stand-in on sys.path (translator validation of the symbolic harness, and a concrete pass in its own right)."""
from __future__ import annotations

import itertools
import json
import logging
import math
import sys

from checks import c17

FV = [-1.0, -1e-300, -0.0, 0.0, 5e-324, 1e-12, 0.5, math.nextafter(1.0, 0.0), 1.0, math.nextafter(1.0, 2.0), 2.0, math.inf, -math.inf, math.nan]
IV = [-3, -2, -1, 0, 1, 2, 3, 4]
PAIRS = [("precondition_frequency", "start_preconditioning_step"), ("beta1", "beta3"), ("iro_list0", "iro_list1"), ("graft_eps", "graft_beta2"), ("momentum", "dampening")]


FLAGSETS = [None, dict(use_nesterov=True), dict(use_bias_correction=False, use_decoupled_weight_decay=False), dict(use_merge_dims=False, use_nesterov=True, use_bias_correction=False)]


def cases():
    # the boolean options flipped around baseline 1 (momentum, dampening, weight decay non-zero there)
    for flags in FLAGSETS[1:]:
        base = dict(c17.BASE)
        for n in [x for x in c17.FLOATS + c17.INTS if not x.startswith("iro_list")]:
            for x in (FV if n in c17.FLOATS else IV):
                v = dict(base)
                v[n] = x
                yield dict(base=1, graft="adam", soap=False, ignored=[], iro_list=False, sym=[n], flags=flags), v
        for a, b in (("momentum", "dampening"), ("beta1", "beta3")):
            for x, y in itertools.product(FV[::2], FV[::2]):
                v = dict(base)
                v[a], v[b] = x, y
                yield dict(base=1, graft="adam", soap=False, ignored=[], iro_list=False, sym=[a, b], flags=flags), v
    for base_id, graft, soap in itertools.product((1, 2), (None, "sgd", "adagrad", "rmsprop", "adam"), (False, True)):
        for ign in ((), (0,)):
            for iro_list in (False, True):
                base = dict(c17.BASE2 if base_id == 2 else c17.BASE)
                if iro_list:
                    base["iro_list0"], base["iro_list1"] = 1, 0
                if ign and base_id == 2 and not iro_list:
                    base["inv_root_override"] = 0
                names = [n for n in c17.FLOATS + c17.INTS if not (n.startswith("iro_list") and not iro_list) and not (n == "inv_root_override" and iro_list)]
                for n in names:
                    if soap and graft not in (None, "adam") or (ign and graft not in (None, "adam")):
                        continue  # keep the product moderate: SOAP / ignored dims with two grafting types
                    for x in (FV if n in c17.FLOATS else IV):
                        v = dict(base)
                        v[n] = x
                        yield dict(base=base_id, graft=graft, soap=soap, ignored=list(ign), iro_list=iro_list, sym=[n]), v
                if graft == "adam" and not soap:
                    for a, b in PAIRS:
                        if (a.startswith("iro_list")) != iro_list and a.startswith("iro_list"):
                            continue
                        for x, y in itertools.product((FV if a in c17.FLOATS else IV)[::2], (FV if b in c17.FLOATS else IV)[::2]):
                            v = dict(base)
                            v[a], v[b] = x, y
                            yield dict(base=base_id, graft=graft, soap=soap, ignored=list(ign), iro_list=iro_list, sym=[a, b]), v


def run_pass(limit=None):
    n, bad = 0, []
    for cfg, v in cases():
        n += 1
        exc, opt = c17.construct(v, cfg["graft"], tuple(cfg["ignored"]), cfg["soap"], cfg.get("flags"))
        dom = bool(c17.domain(v, cfg["graft"], tuple(cfg["ignored"])))
        ok = (exc is None) == dom
        if ok and exc is None:
            g = opt.param_groups[0]
            exp_b3 = v["beta1"] if v["beta3"] == -1.0 else v["beta3"]
            exp_sps = v["precondition_frequency"] if v["start_preconditioning_step"] == -1 else v["start_preconditioning_step"]
            ok = g["beta3"] == exp_b3 and g["start_preconditioning_step"] == exp_sps
        if not ok:
            bad.append(dict(cfg=cfg, values={k: repr(v[k]) for k in cfg["sym"]}, documented_domain=dom, constructor="accepted" if exc is None else repr(exc)[:100]))
        if limit and n >= limit:
            break
    return n, bad


if __name__ == "__main__":
    # once with the library's warnings enabled (the default for a user) and once with logging silenced: acceptance must not depend on it
    logging.getLogger().addHandler(logging.NullHandler())
    n0, bad0 = run_pass(limit=1500)
    logging.disable(logging.CRITICAL)
    n, bad = run_pass()
    n, bad = n + n0, bad0 + bad
    json.dump(dict(cases=n, bad=bad[:20], nbad=len(bad)), sys.stdout)
