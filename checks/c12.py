"""C12 -- eigenvector routines return orthonormal, ordered, diagonalising bases.

That torch.linalg.eigh / qr return orthonormal (ascending, diagonalising) output is LAPACK's contract
and is assumed (environment stubs).  Decided for the repository code around them (n <= 3): 1x1 ->
ones; diagonal flag -> identity of A's dtype; non-square rejected; the eigh configuration returns
exactly the stub's Q; QR with a zero estimate falls back to eigh; otherwise the result is the Q of
the LAST qr(A @ Q_prev) with its columns permuted by ascending Rayleigh quotient q_j^T A q_j; the
iteration stops exactly when |Q_prev - Q|/|Q_prev| <= tolerance or the count is reached; unknown
configuration raises.
"""
from __future__ import annotations

import itertools

import numpy as np
import z3

from checks import mf
from vlib import symx
from vlib.symx import CTX, SymReal


def make(cfg):
    n, iters = cfg["n"], cfg.get("max_iterations", 1)
    mode = cfg["mode"]
    twin = cfg.get("twin")
    opts = dict(query_timeout_ms=30000, no_pins=True)
    log = mf.install_stubs(opts)

    def fn():
        import torch
        import matrix_functions as M
        from matrix_functions_types import EighEigenvectorConfig, QRConfig

        log["eigh"].clear()
        log["qr"].clear()
        info = dict(signature=dict(kind="eigenvectors", mode=mode, offload=cfg.get("offload", ""), diagonal_input=bool(cfg.get("diagonal_input"))), cfg=cfg)
        A = mf.sym_matrix("a", n)
        if cfg.get("diagonal_input"):
            # an exactly diagonal matrix that is NOT flagged as diagonal: still one decomposition (ascending order is eigh's business, not the diagonal's)
            for i in range(n):
                for j in range(n):
                    if i != j:
                        A[i, j] = SymReal.const(0)
        At = mf.tens(A, torch.float64 if cfg.get("f64") else torch.float32)
        if mode == "eigh":
            out = M.matrix_eigenvectors(At, None, EighEigenvectorConfig(eigen_decomp_offload_device=cfg.get("offload", "")), is_diagonal=False)
            symx.prove("one eigendecomposition of the input", len(log["eigh"]) == 1, info)
            mf.prove_all_equal("decomposed matrix is the input", log["eigh"][0]["A"], A, info)
            mf.prove_all_equal("eigh configuration returns exactly the decomposition's Q", out.a, log["eigh"][0]["Q"], info)
            return "eigh"
        if mode == "diag":
            out = M.matrix_eigenvectors(At, mf.tens(mf.sym_matrix("e", n, symmetric=False)), QRConfig() if cfg.get("qr") else EighEigenvectorConfig(), is_diagonal=True)
            eye = np.array([[SymReal.const(int(i == j)) for j in range(n)] for i in range(n)], dtype=object)
            mf.prove_all_equal("diagonal-flagged input yields the identity", out.a, eye, info)
            symx.prove("identity has the input's dtype and no decomposition is run", out.dtype is At.dtype and not log["eigh"] and not log["qr"], info)
            return "diag"
        if mode == "zero-estimate":
            E = np.array([[SymReal.const(0)] * n for _ in range(n)], dtype=object)
            out = M.matrix_eigenvectors(At, mf.tens(E), QRConfig(max_iterations=iters), is_diagonal=False)
            symx.prove("zero estimate falls back to the eigendecomposition (no QR step)", len(log["eigh"]) == 1 and not log["qr"], info)
            mf.prove_all_equal("fallback returns the decomposition's Q", out.a, log["eigh"][0]["Q"], info)
            return "fallback"
        # QR with a non-zero estimate
        E = mf.sym_matrix("e", n, symmetric=False)
        CTX.assume(z3.Or([x.n != 0 for x in E.reshape(-1)]), control=False)
        tol = symx.hp("tol")
        CTX.assume(tol.n >= 0)
        out = M.matrix_eigenvectors(At, mf.tens(E), QRConfig(max_iterations=iters, tolerance=tol), is_diagonal=False)
        k = len(log["qr"])
        symx.CTX.events.append(f"qr steps: {k}")
        symx.prove("no eigendecomposition on a non-zero estimate; between 1 and max_iterations QR steps", not log["eigh"] and 1 <= k <= iters, info)
        prev = E
        errs = []
        for i, rec in enumerate(log["qr"]):
            prod = np.dot(A, prev)
            mf.prove_all_equal(f"QR step {i + 1} factors A @ Q_prev", rec["M"], prod, info)
            num = symx.norm2(list((prev - rec["Q"]).reshape(-1)))
            den = symx.norm2(list(prev.reshape(-1)))
            errs.append((num, den))
            prev = rec["Q"]
        # stop rule: every earlier step had error > tolerance; the last one stopped by tolerance or by the count
        for i, (num, den) in enumerate(errs[:-1]):
            symx.prove(f"iteration continues only while the relative change exceeds the tolerance (step {i + 1})", num > tol * den, info)
        num, den = errs[-1]
        if k < iters:
            symx.prove("iteration stops before the count only when the relative change is within the tolerance", num <= tol * den, info)
        Ql = log["qr"][-1]["Q"]
        ray = []
        for j in range(n):
            s = SymReal.const(0)
            for i in range(n):
                for l in range(n):
                    s = s + Ql[i, j] * A[i, l] * Ql[l, j]
            ray.append(s)
        if twin == "descending":
            ray = [-r for r in ray]
        # which permutation of the last Q's columns was returned
        perm = None
        for cand in itertools.permutations(range(n)):
            if all(out.a[i, j].fp == Ql[i, cand[j]].fp for i in range(n) for j in range(n)):
                perm = cand
                break
        symx.prove("the result consists of the columns of the last QR factor", perm is not None, info)
        for i in range(n):
            for j in range(n):
                symx.prove_equal(f"result column {j} is column {perm[j]} of the last Q", out.a[i, j], Ql[i, perm[j]], info)
        # the comparisons made by the sort are the path-condition literals over the last factor and A only
        allowed = {f"Qq{k - 1}_{i}_{j}" for i in range(n) for j in range(n)} | {f"a_{i}_{j}" for i in range(n) for j in range(n)}
        ctx = [c for c in CTX.pc if {str(v) for v in symx._vars(c)} <= allowed]
        for j in range(n - 1):
            symx.prove(f"columns ordered by ascending Rayleigh quotient ({j} <= {j + 1})", ray[perm[j]] <= ray[perm[j + 1]], info, context=ctx)
        return f"qr {k} steps perm {perm}"

    return fn, opts


def concrete_cases():
    """1x1 -> ones; non-square / non-2D rejected; unknown config -> NotImplementedError (stand-in, concrete)."""
    import torch
    import matrix_functions as M
    from dataclasses import dataclass
    from matrix_functions_types import EigenvectorConfig, QRConfig, EighEigenvectorConfig

    @dataclass
    class Other(EigenvectorConfig):
        pass

    probs, n = [], 0
    symx.CTX.mode = "concrete"
    try:
        for cfgc in (EighEigenvectorConfig(), QRConfig()):
            n += 1
            o = M.matrix_eigenvectors(torch.tensor([[3.0]]), torch.tensor([[0.5]]), cfgc)
            if [float(x) for x in o.a.reshape(-1)] != [1.0] or tuple(o.shape) != (1, 1):
                probs.append("1x1 input does not yield ones")
            for shape in ((2,), (2, 3), (2, 2, 2)):
                n += 1
                try:
                    M.matrix_eigenvectors(torch.zeros(shape), torch.zeros(shape), cfgc)
                    probs.append(f"shape {shape} accepted")
                except ValueError:
                    pass
        n += 1
        try:
            M.matrix_eigenvectors(torch.eye(2), torch.eye(2), Other())
            probs.append("unknown configuration accepted")
        except NotImplementedError:
            pass
    finally:
        symx.CTX.mode = "symbolic"
    return n, probs


def jobs_for(tier):
    jobs = []
    k = 0

    def add(**cfg):
        nonlocal k
        jobs.append(dict(id=f"v{k}", module="checks.c12", factory="make", cfg=cfg))
        k += 1

    for n in (2, 3):
        add(n=n, mode="eigh")
        add(n=n, mode="eigh", f64=True)
        add(n=n, mode="eigh", offload="cpu")
        add(n=n, mode="eigh", offload="cpu", diagonal_input=True)
        add(n=n, mode="eigh", diagonal_input=True)
        add(n=n, mode="diag")
        add(n=n, mode="diag", qr=True)
        add(n=n, mode="zero-estimate", max_iterations=2)
        add(n=n, mode="qr", max_iterations=1)
    add(n=2, mode="qr", max_iterations=2)
    add(n=2, mode="qr", max_iterations=3)
    if tier == "thorough":
        for m_ in ("eigh", "diag", "zero-estimate"):
            add(n=4, mode=m_, max_iterations=2)
        add(n=4, mode="qr", max_iterations=1)
        add(n=3, mode="qr", max_iterations=2)
        add(n=3, mode="qr", max_iterations=3)
        add(n=2, mode="qr", max_iterations=4)
    return jobs


def run(tier, seed, argv):
    from vlib import par
    from vlib.report import Report

    rep = Report("C12", tier, seed)
    jobs = jobs_for(tier)
    rep.bounds = dict(n="2..3 (1x1 concrete); thorough: 4 for the dispatch modes and one QR step", max_iterations="<=3 (n=2), 1 (n=3) quick; <=4 / <=3 thorough", tolerance="symbolic >= 0", estimate="arbitrary non-zero matrix / zero matrix")
    rep.assumptions = ["torch.linalg.eigh and torch.linalg.qr are environment stubs (fresh outputs; orthonormality, ordering and diagonalisation are LAPACK's contract and not decided here)",
                       "the fixed-point clause (an exact eigenbasis is kept up to signs) needs QR uniqueness and is not decided", "real arithmetic"]
    rep.absorb("eigenvectors", par.run_jobs(jobs, chunk=8))
    tw = par.run_jobs([dict(id="twin0", module="checks.c12", factory="make", cfg=dict(n=2, mode="qr", max_iterations=1, twin="descending"))])
    rep.twin_expected = 1
    rep.twin_sat = int(any(x["status"] == "violation" for r in tw.values() for x in r["records"]))
    n, probs = concrete_cases()
    rep.extra["concrete_cases"] = n
    rep.validated_traces = n
    if probs:
        rep.violations.append(dict(label=f"concrete: {probs[0]}", info=dict(signature=dict(kind="concrete-eigvec-cases"), cfg={}), model={}, job="concrete"))
    return rep.finish("checks.c12")


def replay(record):
    """Real torch + real LAPACK: the property's observable clauses on the witness input (orthonormal estimate built from the witness)."""
    import torch
    import matrix_functions as M
    from matrix_functions_types import EighEigenvectorConfig, QRConfig

    info = record.get("info") or {}
    cfg = info.get("cfg", {})
    m = record.get("model", {})
    if (info.get("signature") or {}).get("kind") == "concrete-eigvec-cases":
        probs = []
        for cfgc in (EighEigenvectorConfig(), QRConfig()):
            o = M.matrix_eigenvectors(torch.tensor([[3.0]]), torch.tensor([[0.5]]), cfgc)
            if o.tolist() != [[1.0]]:
                probs.append("1x1 does not yield ones")
            for shape in ((2,), (2, 3)):
                try:
                    M.matrix_eigenvectors(torch.zeros(shape), torch.zeros(shape), cfgc)
                    probs.append(f"shape {shape} accepted")
                except ValueError:
                    pass
        return bool(probs), str(probs or "ok")

    def val(k, d=0.0):
        v = m.get(k, d)
        return v[0] / v[1] if isinstance(v, list) else float(v)

    n = cfg["n"]
    A = torch.tensor([[val(f"a_{min(i, j)}_{max(i, j)}") for j in range(n)] for i in range(n)], dtype=torch.float64)
    A = A @ A.T  # PSD input as in the property
    probs = []
    mode = cfg["mode"]
    if mode in ("eigh", "zero-estimate"):
        # the stub's output cannot be imposed on LAPACK: look for a concrete PSD input of the same size, starting from the witness (as given, squared, and
        # rescaled -- the property quantifies over all PSD matrices, whatever their scale), on which an observable clause fails; tolerances are relative to |A|
        Aw = torch.tensor([[val(f"a_{min(i, j)}_{max(i, j)}") for j in range(n)] for i in range(n)], dtype=torch.float64)
        cands = []
        if Aw.abs().max() > 0:
            if torch.linalg.eigvalsh(Aw).min() >= 0:
                cands.append(Aw)
            cands.append(A)
            cands += [c * s_ for c in list(cands) for s_ in (1e-3, 1e-6, 1e-9, 1e-12)]
        g = torch.Generator().manual_seed(2)
        for s_ in (1.0, 1e-4, 1e-8, 1e-10, 1e-12, 1e4):
            for _ in range(6):
                B = torch.randn(n, n, dtype=torch.float64, generator=g)
                cands.append(B @ B.T * s_)
        for Ac in cands:
            for dt in (torch.float64, torch.float32):
                Ad = Ac.to(dt)
                scale = Ad.abs().max().item()
                if scale == 0 or scale < 1e-30:
                    continue
                if cfg.get("diagonal_input"):
                    Ad = torch.diag(torch.sort(torch.diagonal(Ad), descending=True).values)  # exactly diagonal with a descending diagonal
                    scale = Ad.abs().max().item()
                    if scale == 0:
                        continue
                Q = M.matrix_eigenvectors(Ad, torch.zeros(n, n, dtype=dt), QRConfig() if mode == "zero-estimate" else EighEigenvectorConfig(eigen_decomp_offload_device=cfg.get("offload", "")))
                D = Q.T @ Ad @ Q
                tol = 1e-4 if dt is torch.float32 else 1e-9
                if not torch.allclose(Q.T @ Q, torch.eye(n, dtype=dt), atol=tol):
                    probs.append(f"Q not orthonormal for A={Ad.tolist()}")
                if (D - torch.diag(torch.diagonal(D))).abs().max().item() > tol * scale:
                    probs.append(f"Q^T A Q not diagonal (off-diagonal {(D - torch.diag(torch.diagonal(D))).abs().max().item():.3e} at |A|={scale:.3e}) for A={Ad.tolist()}")
                if (torch.diagonal(D)[1:] < torch.diagonal(D)[:-1] - tol * scale).any():
                    probs.append(f"eigenvalues not ascending for A={Ad.tolist()}")
                if probs:
                    break
            if probs:
                break
    elif mode == "diag":
        Q = M.matrix_eigenvectors(A, torch.eye(n, dtype=torch.float64), QRConfig(), is_diagonal=True)
        if not torch.equal(Q, torch.eye(n, dtype=torch.float64)):
            probs.append("diagonal flag does not give the identity")
    else:
        # the stub outputs (Q, R of each QR step) cannot be imposed on the real LAPACK: look for a concrete input of the
        # same shape/configuration, starting from the witness, on which the observable clause fails
        it = cfg.get("max_iterations", 1)
        g = torch.Generator().manual_seed(1)
        E0 = torch.tensor([[val(f"e_{i}_{j}") for j in range(n)] for i in range(n)], dtype=torch.float64)
        cands = [(A, E0 + 1e-3 * torch.eye(n, dtype=torch.float64))]
        # inputs with exact zero structure: an unflagged diagonal matrix with an unsorted diagonal and the identity (or a permutation) as estimate,
        # a block-diagonal matrix with the eigenbasis of a differently ordered spectrum as estimate
        dvals = torch.tensor([4.0, 1.0, 9.0, 2.0][:n], dtype=torch.float64)
        cands.append((torch.diag(dvals), torch.eye(n, dtype=torch.float64)))
        cands.append((torch.diag(dvals), torch.eye(n, dtype=torch.float64)[:, torch.arange(n - 1, -1, -1)]))
        # singular PSD input with an exact zero row / column and an estimate containing that null vector (A @ Q has an exact zero column)
        svals = dvals.clone()
        svals[min(1, n - 1)] = 0.0
        cands.append((torch.diag(svals), torch.eye(n, dtype=torch.float64)))
        # ... the smallest such input that is not diagonal has order 3 (tried whatever the order of the symbolic job: the clause is about the routine)
        S3 = torch.zeros(3, 3, dtype=torch.float64)
        S3[:2, :2] = torch.tensor([[2.0, 1.0], [1.0, 2.0]], dtype=torch.float64)
        cands.append((S3, torch.eye(3, dtype=torch.float64)))
        cands.append((S3[[2, 0, 1]][:, [2, 0, 1]].contiguous(), torch.eye(3, dtype=torch.float64)))
        if n >= 3:
            Bd = torch.zeros(n, n, dtype=torch.float64)
            Bd[:2, :2] = torch.tensor([[2.0, 1.0], [1.0, 2.0]], dtype=torch.float64)
            for i in range(2, n):
                Bd[i, i] = 0.5 * (i - 1)
            cands.append((Bd, torch.linalg.eigh(Bd)[1][:, torch.arange(n - 1, -1, -1)]))
        for _ in range(60):
            B = torch.randn(n, n, dtype=torch.float64, generator=g)
            cands.append((B @ B.T, torch.randn(n, n, dtype=torch.float64, generator=g)))
        for Ac, Ec in cands:
            n_ = Ac.shape[0]
            E, _ = torch.linalg.qr(Ec)
            Q = M.matrix_eigenvectors(Ac, E, QRConfig(max_iterations=it, tolerance=0.0))
            ray = torch.stack([Q[:, j] @ Ac @ Q[:, j] for j in range(n_)])
            if not torch.isfinite(Q).all() or not torch.allclose(Q.T @ Q, torch.eye(n_, dtype=torch.float64), atol=1e-8):
                probs.append(f"result not finite / not orthonormal for A={Ac.tolist()} estimate={E.tolist()}")
                break
            if (ray[1:] < ray[:-1] - 1e-9 * (1 + ray.abs().max())).any():
                probs.append(f"columns not ordered by ascending Rayleigh quotient: {ray.tolist()} for A={Ac.tolist()} estimate={E.tolist()}")
            P = E
            for _ in range(it):
                P, _ = torch.linalg.qr(Ac @ P)
            # the result is the last iterate of the documented orthogonal iteration up to column order and signs: |P^T Q| is a permutation matrix
            W = (P.T @ Q).abs()
            if not (torch.allclose(W.max(dim=0).values, torch.ones(n_, dtype=torch.float64), atol=1e-6) and torch.allclose(W.sum(dim=0), torch.ones(n_, dtype=torch.float64), atol=1e-5)
                    and torch.allclose(W.sum(dim=1), torch.ones(n_, dtype=torch.float64), atol=1e-5)):
                probs.append(f"result is not the {it}-step orthogonal-iteration update of the estimate (up to column order and signs) for A={Ac.tolist()} estimate={E.tolist()}")
            if probs:
                break
            # the stopping rule: QR steps continue exactly while the relative change |Q_prev - Q|_F / |Q_prev|_F exceeds the tolerance (documented
            # iteration re-run independently with the same LAPACK routine; the number of QR factorisations is observed by wrapping torch.linalg.qr)
            for tol_ in (0.5, 0.1, 1e-2, 1e-4):
                mi = 25
                P, exp_steps = E, 0
                while exp_steps < mi:
                    Pn = torch.linalg.qr(Ac @ P).Q
                    exp_steps += 1
                    rel = float((P - Pn).norm() / P.norm())
                    P = Pn
                    if abs(rel - tol_) < 1e-9 * (1 + tol_):
                        exp_steps = None  # borderline in floating point: not decidable by a replay
                        break
                    if rel <= tol_:
                        break
                if exp_steps is None:
                    continue
                calls, real_qr = [0], torch.linalg.qr

                def counting_qr(*a, **k):
                    calls[0] += 1
                    return real_qr(*a, **k)

                torch.linalg.qr = counting_qr
                try:
                    M.matrix_eigenvectors(Ac, E, QRConfig(max_iterations=mi, tolerance=tol_))
                finally:
                    torch.linalg.qr = real_qr
                if calls[0] != exp_steps:
                    probs.append(f"QRConfig(max_iterations={mi}, tolerance={tol_}): {calls[0]} QR steps run, the documented stopping rule gives {exp_steps} for A={Ac.tolist()} estimate={E.tolist()}")
                    break
            if probs:
                break
    return bool(probs), f"mode={mode} n={n}: {probs or 'clauses hold'}"
