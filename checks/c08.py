"""C08 -- fully_shard / hybrid-shard Shampoo equals serial Shampoo on local shards.

Parameters are simulator DTensors sharded on dim 0 over the shard ranks (uneven, including ranks
that receive no rows), gradients are DTensors or absent (symbolic presence).  Each simulated rank
runs the real FullyShardDistributor (HybridShardDistributor over a simulated 2-D mesh) inside the
real optimizer.  Oracle (differential): the serial optimizer on that rank's local tensors as
ordinary parameters, parameters with an empty local shard left out.  Per path every element of
every local shard must equal the oracle; with HybridShard all replicas must agree as well.
"""
from __future__ import annotations

import numpy as np

from checks import c01
from vlib import symx, optharness as H


def row_split(nrows, nranks, sizes=None):
    """torch.chunk-style dim-0 sharding (ceil(n/R) rows per rank, trailing ranks may be empty) or explicit sizes."""
    if sizes is not None:
        assert sum(sizes) == nrows
        out, a = [], 0
        for s in sizes:
            out.append((a, a + s))
            a += s
        return out
    per = -(-nrows // nranks)
    out = []
    for r in range(nranks):
        a = min(r * per, nrows)
        out.append((a, min(a + per, nrows)))
    return out


def make(cfg):
    T = cfg["T"]
    tier = cfg.get("tier", "quick")
    origs = [tuple(s) for s in cfg["orig_shapes"]]
    nshard = cfg["shards"]
    hybrid = cfg.get("hybrid")

    def fn():
        import torch
        from distributed_shampoo.shampoo_types import FullyShardShampooConfig, HybridShardShampooConfig
        from torch.distributed.tensor import DTensor, Shard
        from checks.c06 import _patch_mesh_cache

        _patch_mesh_cache()
        comm_name = (hybrid or {}).get("comm", "FP32")
        low = comm_name in ("BF16", "FP16")
        if low:
            symx.CTX.opts["round_low_precision"] = True  # casts to bfloat16/float16 become the uninterpreted rounding round_<dtype>(x)
        rname = "round_" + {"BF16": "bfloat16", "FP16": "float16"}.get(comm_name, "")

        def rnd(x):
            x = symx.SymReal.lift(x)
            return x if (x.c is not None and x.c == 0) else symx.opaque(rname, [x])

        W = [H.arr_var(f"w{i}", s) for i, s in enumerate(origs)]
        splits = [row_split(s[0], nshard, (cfg.get("row_sizes") or {}).get(str(i))) for i, s in enumerate(origs)]
        grads_all = []
        for k in range(1, T + 1):
            g = []
            for i, s in enumerate(origs):
                present = True
                if cfg.get("presence") == "symbolic" and (cfg.get("presence_params") is None or i in cfg["presence_params"]):
                    present = bool(symx.symbool(f"present_p{i}_s{k}"))
                g.append(H.arr_var(f"g{k}p{i}", s) if present else None)
            grads_all.append(g)
        base = {k: v for k, v in cfg.items() if k not in ("orig_shapes",)}
        info = dict(cfg=cfg, signature=dict(kind="fully-shard-vs-serial", hybrid=bool(hybrid)))
        replicas = hybrid["replicate"] if hybrid else 1
        world = nshard * replicas
        sim = torch.distributed.Sim(world)
        results = [None] * world
        hp_shared = [None]

        def rank_fn(r):
            srank = r % nshard
            mesh2d = [[q * nshard + t for t in range(nshard)] for q in range(replicas)]
            if hybrid:
                mesh = torch.distributed.device_mesh.DeviceMesh("cpu", mesh2d, mesh_dim_names=("replicate", "shard"))
            else:
                mesh = torch.distributed.device_mesh.DeviceMesh("cpu", list(range(nshard)), mesh_dim_names=("shard",))
            locals_ = [W[i][a:b].copy() for i, (a, b) in enumerate(sp[srank] for sp in splits)]
            ccfg = dict(base)
            ccfg["params"] = [l.shape for l in locals_]
            if hybrid:
                from distributed_shampoo.shampoo_types import CommunicationDType

                ccfg["distributed_config_factory"] = lambda run: HybridShardShampooConfig(device_mesh=mesh, num_trainers_per_group=hybrid.get("group", -1),
                                                                                          communicate_params=hybrid.get("communicate_params", False),
                                                                                          communication_dtype=getattr(CommunicationDType, comm_name))
            else:
                ccfg["distributed_config_factory"] = lambda run: FullyShardShampooConfig()
            ccfg["param_wrapper"] = "dtensor"
            run = H.OptRun(ccfg, init_values=locals_, hp=hp_shared[0], param_wrap=lambda t, i: DTensor(t, mesh, [Shard(0)], origs[i]))
            if hp_shared[0] is None:
                hp_shared[0] = run.hp
            out = []
            for k in range(T):
                for i, p in enumerate(run.params):
                    g = grads_all[k][i]
                    a, b = splits[i][srank]
                    p.grad = None if g is None else DTensor(H.to_tensor(g[a:b].copy(), run.pdt), mesh, [Shard(0)], origs[i])
                run.impl_step()
                out.append([H.read(p.to_local()) for p in run.params])
            results[r] = out
            if hybrid:
                from checks.c06 import state_summary

                owners[r] = state_summary(run)
            return True

        owners = [None] * world
        _, errors = sim.run(rank_fn)
        for e in errors:
            if isinstance(e, (symx.PathEnd, symx.Restart, symx.PathViolation, symx.HarnessError)):
                raise e
        bad = [e for e in errors if e is not None]
        if bad:
            symx.prove(f"a rank failed: {type(bad[0]).__name__}: {str(bad[0])[:160]}", False, info)
        if hybrid and not bad:
            from checks.c06 import prove_state_placement

            gsz = hybrid.get("group", -1)
            gsz = replicas if gsz == -1 else gsz
            groups_ = [[(q0 + q) * nshard + t for q in range(gsz)] for t in range(nshard) for q0 in range(0, replicas, gsz)]
            prove_state_placement(groups_, owners, dict(cfg=cfg, signature=dict(kind="state-placement", hybrid=True)))
        for srank in range(nshard):
            idx = [i for i in range(len(origs)) if splits[i][srank][1] > splits[i][srank][0]]
            if not idx:
                continue
            ocfg = dict(base)
            ocfg["params"] = [W[i][splits[i][srank][0]:splits[i][srank][1]].shape for i in idx]
            O = H.OptRun(ocfg, init_values=[W[i][splits[i][srank][0]:splits[i][srank][1]] for i in idx], hp=hp_shared[0])
            for k in range(T):
                O.set_grads([None if grads_all[k][i] is None else grads_all[k][i][splits[i][srank][0]:splits[i][srank][1]].copy() for i in idx])
                e = H.guarded_step(O)
                if e is not None:
                    symx.prove(f"oracle step raised {type(e).__name__}", False, info)
                for rep in range(replicas):
                    r = rep * nshard + srank
                    for j, i in enumerate(idx):
                        exp = H.read(O.params[j])
                        got = results[r][k][i]
                        w0 = W[i][splits[i][srank][0]:splits[i][srank][1]]
                        for ix in (np.ndindex(*exp.shape) if exp.ndim else [()]):
                            want = exp[ix]
                            if low:
                                # reduced precision (one step from a common state): replicas identical, off the serial result only by the rounding of what is communicated
                                want = rnd(want) if hybrid.get("communicate_params", False) else w0[ix] + rnd(want - w0[ix])
                            symx.prove_equal(f"shard rank {srank}{' replica ' + str(rep) if hybrid else ''}: local shard of parameter {i}{list(ix)} after step {k + 1} equals the serial optimizer on the local tensor"
                                             + (" up to the rounding of the communicated quantity" if low else ""), got[ix], want, info)
            for rep in range(replicas):
                r = rep * nshard + srank
                for i in range(len(origs)):
                    if i not in idx:
                        symx.prove(f"parameter {i} with an empty local shard on rank {srank} stays empty", results[r][-1][i].size == 0, info)
        return "ok"

    return fn, H.default_opts(tier)


def jobs_for(tier):
    jobs = []
    n = 0

    def add(orig_shapes, shards, **kw):
        nonlocal n
        kw2 = dict(assume_generic=True, graft="adam", nesterov=True, bias_corr=True, decoupled=True, pf=1, sps=2, T=2, mpd=2, merge=True)
        kw2.update(kw)
        cfg = c01.base_cfg(tier=tier, **kw2)
        cfg["orig_shapes"] = [list(s) for s in orig_shapes]
        cfg["shards"] = shards
        jobs.append(dict(id=f"s{n}", module="checks.c08", factory="make", cfg=cfg))
        n += 1

    add([(4, 2), (3,)], 1)
    add([(4, 2), (3,)], 2)                                    # 3 rows over 2 ranks: uneven
    add([(3, 2), (1, 2), (2,)], 2)                            # parameter 1 has no rows on rank 1
    add([(3, 2), (1,)], 3, graft=None, fixed=dict(mom=0))     # rank 2 has no rows of parameter 1
    add([(4, 2), (2, 2)], 2, presence="symbolic", graft="sgd", fixed=dict(mom=0, wd=0))
    add([(2, 2, 2)], 2, graft="rmsprop", merge=False)
    add([(3, 2), (1, 2), (2,)], 2, presence="symbolic", graft=None, fixed=dict(mom=0, wd=0, b1=0))  # empty local shard together with an absent gradient
    add([(4, 2), (2,)], 2, hybrid=dict(replicate=2, group=-1), graft=None, fixed=dict(mom=0, wd=0))
    add([(4, 2), (3,)], 1, hybrid=dict(replicate=2, group=2, communicate_params=True), graft="sgd", fixed=dict(mom=0))
    # reduced-precision communication (one step from a common state): replicas identical, deviation = rounding of the communicated quantity
    add([(4, 2), (3,)], 1, hybrid=dict(replicate=2, group=2, comm="BF16"), graft=None, T=1, sps=1, fixed=dict(mom=0))
    add([(4, 2), (2,)], 2, hybrid=dict(replicate=2, group=2, comm="FP16", communicate_params=True), graft="sgd", T=1, sps=1, fixed=dict(mom=0, wd=0))
    # parameter dtype (4 bytes) != communication dtype (2 bytes) with block sizes that are not 64-byte multiples in either
    add([(5, 5), (5,), (4, 3), (4,)], 1, hybrid=dict(replicate=2, group=2, comm="BF16"), graft=None, T=1, sps=1, mpd=5, merge=False, fixed=dict(mom=0, wd=0, b1=0), mixed_sizes=True)
    # a local shard that keeps three dimensions (no merging) and is blocked along its last one: strided 3-d blocks through the communication buffers
    add([(2, 2, 4), (2,)], 1, hybrid=dict(replicate=2, group=2), graft=None, merge=False, mpd=2, T=1, sps=1, fixed=dict(mom=0, wd=0, b1=0))
    add([(2, 2, 4), (2,)], 1, hybrid=dict(replicate=2, group=2, communicate_params=True), graft="sgd", merge=False, mpd=2, T=1, sps=1, fixed=dict(mom=0, wd=0))
    # HybridShard with a gradient that comes and goes for a block owned by ONE replica rank while every rank keeps other gradients
    add([(4, 2), (3,), (2,)], 1, hybrid=dict(replicate=2, group=2), presence="symbolic", presence_params=[2], T=3, graft=None, fixed=dict(mom=0, wd=0, b1=0), merge=False)
    # num_trainers_per_group a proper divisor of the replicate size: several distribution groups inside one replicate group
    add([(4, 2), (3,)], 1, hybrid=dict(replicate=2, group=1), graft=None, fixed=dict(mom=0, wd=0))
    if tier == "thorough":
        # every distribution of 0..4 rows of a (R, 2) parameter over three shard ranks (ranks without rows included); a second parameter with one row per rank
        # keeps every rank busy (a rank without any parameter is rejected by design); grafting configurations in rotation
        rot = [dict(graft=None, fixed=dict(mom=0, wd=0)), dict(graft="sgd", fixed=dict(mom=0)), dict(graft="adagrad", fixed=dict(mom=0, wd=0)), dict(graft="adam", fixed=dict(wd=0))]
        k = 0
        for R in range(1, 5):
            for r0 in range(R + 1):
                for r1 in range(R + 1 - r0):
                    add([(R, 2), (3, 1)], 3, row_sizes={"0": [r0, r1, R - r0 - r1], "1": [1, 1, 1]}, T=1 if k % 3 else 2, **rot[k % 4])
                    k += 1
        add([(4, 2), (3,), (2,)], 1, hybrid=dict(replicate=4, group=2), graft="sgd", fixed=dict(mom=0))
        add([(5, 2), (4,), (1, 3)], 4, graft=None, fixed=dict(mom=0))  # every rank keeps at least one non-empty local shard
        add([(4, 3)], 2, row_sizes={"0": [1, 3]}, graft="adagrad")
        add([(4, 2), (2, 2), (2,)], 2, presence="symbolic", graft="adam", fixed=dict(wd=0))
        add([(6, 2), (4,)], 2, hybrid=dict(replicate=3, group=3), graft=None, fixed=dict(mom=0, wd=0))  # >= 3 blocks on every shard rank
        add([(4, 2), (2,)], 2, hybrid=dict(replicate=2, group=1), graft=None, fixed=dict(mom=0, wd=0))
    return jobs


def run(tier, seed, argv):
    from vlib import par
    from vlib.report import Report

    rep = Report("C08", tier, seed)
    jobs = jobs_for(tier)
    if argv:
        jobs = [j for j in jobs if j["id"] in argv]
    rep.bounds = dict(configs=len(jobs), shard_ranks="1..3 (thorough 4)", sharding="dim 0, torch.chunk style incl. ranks without rows, explicit uneven sizes (thorough)", hybrid="replicate 2 (thorough 3) x shard 1..2", steps="T=2")
    rep.assumptions = ["DTensor is the simulator's local-view model (to_local, dim-0 Shard placement); redistribution / FSDP2 hooks are outside the model",
                       "as C01/C06: real arithmetic, recording stubs, lock-step simulator"]
    rep.validate_standin(6 if tier == "quick" else 24)
    rep.absorb("fully-shard", par.run_jobs(jobs, chunk=4))
    return rep.finish("checks.c08")


def replay(record):
    from checks import c08_replay

    return c08_replay.replay(record)
