"""C06 -- DDP Shampoo equals serial Shampoo and keeps replicas identical.

The stand-in's torch.distributed is a deterministic lock-step simulator: R rank contexts run the
real DDPDistributor / optimizer code (threads passing one baton), all_gather_into_tensor is a
rendezvous, every process-group creation and collective is logged per rank.  Per path (symbolic
hyperparameters, values, gradients, gradient presence): every rank's parameters equal the serial
run after every step; all members of a communicator issue the same number of all_gathers (a rank
that skips one is reported as 'left waiting'); all ranks issue the same sequence of multi-member
process-group creations (the documented contract of new_group); each block's optimizer state
lives on exactly one rank of its group.
"""
from __future__ import annotations

import functools

import numpy as np

from checks import c01
from vlib import symx, optharness as H


def _patch_mesh_cache():
    """get_device_mesh is cached per PROCESS in reality: make the cache per simulated rank."""
    import torch
    import distributed_shampoo.utils.shampoo_dist_utils as du
    import distributed_shampoo.utils.shampoo_ddp_distributor as dd
    from torch.distributed.device_mesh import DeviceMesh

    def per_rank(device_type, mesh, mesh_dim_names=None):
        sim = torch.distributed.Sim.cur
        cache = sim.percache[sim.rank]
        key = (device_type, mesh, mesh_dim_names)
        if key not in cache:
            cache[key] = DeviceMesh(device_type=device_type, mesh=mesh, mesh_dim_names=mesh_dim_names)
        return cache[key]

    du.get_device_mesh = per_rank
    dd.get_device_mesh = per_rank
    for modname in ("shampoo_hsdp_distributor", "shampoo_hybrid_shard_distributor"):
        try:
            m = __import__(f"distributed_shampoo.utils.{modname}", fromlist=["x"])
            m.get_device_mesh = per_rank
        except Exception:
            pass


def state_summary(run):
    """[(param index, block name, has non-empty local Kronecker state, number of factor matrices)] for one rank's optimizer."""
    owned = []
    for pi, p in enumerate(run.params):
        for bname, bs in run.opt.state[p].items():
            if not isinstance(bs, dict):
                continue
            sh = bs.get("shampoo")
            mats = list(getattr(sh, "factor_matrices", ())) if sh is not None else []
            nonempty = [type(t).__name__ == "DTensor" and t.to_local().numel() > 0 for t in mats]
            owned.append((pi, bname, any(nonempty), len(mats)))
    return owned


def prove_state_placement(groups_of_ranks, state_owner, info):
    """Within every distribution group each block's optimizer state lives on exactly one rank (C14's placement clause)."""
    for members in groups_of_ranks:
        keys = sorted({(pi, bname) for r in members for (pi, bname, ne, nm) in state_owner[r] if nm > 0})
        for pi, bname in keys:
            owners = [r for r in members if any(x[0] == pi and x[1] == bname and x[2] for x in state_owner[r])]
            symx.prove(f"state of param {pi} {bname} lives on exactly one rank of group {list(members)}", len(owners) == 1, info)


def make(cfg):
    T = cfg["T"]
    tier = cfg.get("tier", "quick")
    world, G = cfg["world"], cfg["group"]

    def grads_for(k):
        out = []
        for i, s in enumerate(cfg["params"]):
            present = True
            if cfg.get("presence") == "symbolic" and (cfg.get("presence_params") is None or i in cfg["presence_params"]):
                present = bool(symx.symbool(f"present_p{i}_s{k}"))
            out.append(H.arr_var(f"g{k}p{i}", tuple(s)) if present else None)
        return out

    def fn():
        import torch
        from distributed_shampoo.shampoo_types import CommunicationDType, DDPShampooConfig

        _patch_mesh_cache()
        low = cfg.get("comm", "FP32") in ("BF16", "FP16")
        if low:
            symx.CTX.opts["round_low_precision"] = True  # casts to bfloat16/float16 become the uninterpreted rounding round_<dtype>(x)
        # ---- serial oracle
        S = H.OptRun(cfg)
        W_before = [H.read(p) for p in S.params]
        info = S._sig("ddp-vs-serial", world=world, group=G)
        serial = []
        all_grads = []
        for k in range(1, T + 1):
            g = grads_for(k)
            all_grads.append(g)
            S.set_grads(g)
            e = H.guarded_step(S)
            if e is not None:
                symx.prove(f"serial step raises {type(e).__name__}", False, info)
            serial.append([H.read(p) for p in S.params])
        symx.CTX.events.append(f"world={world} group={G} presence={[[x is not None for x in g] for g in all_grads]}")
        comm = getattr(CommunicationDType, cfg.get("comm", "FP32"))
        dcfg = dict(cfg)
        dcfg["distributed_config_factory"] = lambda run: DDPShampooConfig(communication_dtype=comm, num_trainers_per_group=G, communicate_params=cfg.get("communicate_params", False))
        sim = torch.distributed.Sim(world)
        per_rank_params = [[] for _ in range(world)]
        state_owner = [None] * world
        selectors = [None] * world
        blocks_per_param = [None]

        def rank_fn(r):
            run = H.OptRun(dcfg, hp=S.hp)
            from distributed_shampoo.shampoo_types import DISTRIBUTOR

            dist_ = run.opt._per_group_state_lists[0][DISTRIBUTOR]
            selectors[r] = tuple(getattr(dist_, "_distributor_selector", ()))
            blocks_per_param[0] = tuple(getattr(dist_, "_global_num_blocks_per_param", ()))
            for k in range(1, T + 1):
                run.set_grads([None if x is None else x.copy() for x in all_grads[k - 1]])
                run.impl_step()
                per_rank_params[r].append([H.read(p) for p in run.params])
            owned = []
            for pi, p in enumerate(run.params):
                for bname, bs in run.opt.state[p].items():
                    if not isinstance(bs, dict):
                        continue
                    sh = bs.get("shampoo")
                    mats = list(getattr(sh, "factor_matrices", ())) if sh is not None else []
                    nonempty = [type(t).__name__ == "DTensor" and t.to_local().numel() > 0 for t in mats]
                    owned.append((pi, bname, any(nonempty), len(mats)))
            state_owner[r] = owned
            return True

        results, errors = sim.run(rank_fn)
        for e in errors:
            if isinstance(e, (symx.PathEnd, symx.Restart, symx.PathViolation, symx.HarnessError)):
                raise e
        dead = [str(e) for e in errors if isinstance(e, torch.distributed.Deadlock)]
        other = [e for e in errors if e is not None and not isinstance(e, torch.distributed.Deadlock)]
        # was some rank left without any local gradient while its group still had one? (the history class of the recorded finding)
        starved = False
        nb = blocks_per_param[0] or ()
        for g in all_grads:
            pres = [x is not None for x, n_ in zip(g, nb) for _ in range(n_)]
            if any(pres):
                for r in range(world):
                    sel = selectors[r] or ()
                    if len(sel) == len(pres) and any(sel) and not any(a and b for a, b in zip(sel, pres)):
                        starved = True
        cause = "a rank whose blocks all lack gradients skips the collective" if starved else "other"
        if starved:
            info = S._sig("ddp-vs-serial", world=world, group=G, cause=cause)
        if dead:
            symx.prove(f"no rank is ever left waiting: {dead[0]}", False, S._sig("rank-left-waiting", world=world, group=G, cause=cause))
        if other:
            symx.prove(f"a rank raised {type(other[0]).__name__}: {str(other[0])[:120]}", False, S._sig("rank-raised", world=world, group=G))
        # ---- replicas identical and equal to the serial run
        rname = "round_" + {"BF16": "bfloat16", "FP16": "float16"}.get(cfg.get("comm", "FP32"), "")

        def rnd(x):
            x = symx.SymReal.lift(x)
            return x if (x.c is not None and x.c == 0) else symx.opaque(rname, [x])

        for r in range(world):
            for k in range(T):
                for pi, (a, b) in enumerate(zip(per_rank_params[r][k], serial[k])):
                    for idx in (np.ndindex(*a.shape) if a.ndim else [()]):
                        exp = b[idx]
                        if low:
                            # reduced precision: identical on all ranks, and off the serial result only by the rounding of what is communicated
                            exp = rnd(b[idx]) if cfg.get("communicate_params", False) else W_before[pi][idx] + rnd(b[idx] - W_before[pi][idx])
                        symx.prove_equal(f"rank {r} equals the serial run{' up to the rounding of the communicated quantity' if low else ''} (step {k + 1} param {pi}{list(idx)})", a[idx], exp, info)
        # ---- collective sequences
        logs = sim.log
        for r in range(world):
            grp = tuple(range(r // G * G, r // G * G + G)) if G != world else tuple(range(world))
        gathers = [[e for e in lg if e[0] == "all_gather"] for lg in logs]
        for r in range(world):
            mates = [q for q in range(world) if q // G == r // G]
            symx.prove(f"all members of rank {r}'s communicator issue the same number of all_gathers", len({len(gathers[q]) for q in mates}) == 1,
                       S._sig("collective-count-differs", world=world, group=G))
        creations = [[e for e in lg if e[0] == "new_group" and len(e[1]) > 1] for lg in logs]
        symx.prove(f"all ranks create the same multi-member process groups in the same order ({[c[:3] for c in creations]})", all(c == creations[0] for c in creations),
                   S._sig("non-collective-group-creation", world=world, group=G, regime="1<group<world" if 1 < G < world else "other"))
        # ---- state placement: every block with Kronecker factors is owned by exactly one rank of each group
        for g0 in range(0, world, G):
            members = list(range(g0, g0 + G))
            keys = sorted({(pi, bname) for r in members for (pi, bname, ne, nm) in state_owner[r] if nm > 0})
            for pi, bname in keys:
                owners = [r for r in members if any(x[0] == pi and x[1] == bname and x[2] for x in state_owner[r])]
                symx.prove(f"state of param {pi} {bname} lives on exactly one rank of group {members}", len(owners) == 1, S._sig("state-placement", world=world, group=G))
        return "ok"

    return fn, H.default_opts(tier)


def jobs_for(tier):
    jobs = []
    n = 0

    def add(**kw):
        nonlocal n
        kw2 = dict(assume_generic=True, graft="adam", nesterov=True, bias_corr=True, decoupled=True, pf=1, sps=2, T=2)
        kw2.update(kw)
        jobs.append(dict(id=f"d{n}", module="checks.c06", factory="make", cfg=c01.base_cfg(tier=tier, **kw2)))
        n += 1

    P5 = dict(params=[(2, 4), (2,), (3,)], mpd=2, merge=False)  # blocks: 2x2, 2x2, 2, 2, 1
    add(world=1, group=1, **P5)
    add(world=2, group=2, **P5)
    add(world=2, group=2, communicate_params=True, **P5)
    add(world=2, group=1, **P5)
    add(world=3, group=3, graft=None, **P5)
    add(world=4, group=4, graft="sgd", fixed=dict(mom=0), **P5)
    add(world=4, group=2, graft=None, fixed=dict(mom=0, wd=0), **P5)
    # gradient presence: includes histories where every block owned by some rank has no gradient
    add(world=2, group=2, presence="symbolic", graft=None, fixed=dict(mom=0, wd=0, b1=0), params=[(2, 2), (2,)], mpd=2, merge=False)
    # presence changes confined to the blocks of one rank while every rank keeps a gradient (no starvation): stale masked lists on the other rank
    P4 = dict(params=[(2, 2), (2, 2), (2,), (2,)], mpd=2, merge=False)
    add(world=2, group=2, presence="symbolic", presence_params=[2, 3], graft=None, fixed=dict(mom=0, wd=0, b1=0), T=3, **P4)
    add(world=2, group=2, presence="symbolic", presence_params=[2, 3], communicate_params=True, graft=None, fixed=dict(mom=0, wd=0, b1=0), T=2, **P4)
    # reduced-precision communication (one step from a common state): replicas identical, deviation = rounding of the communicated quantity
    add(world=2, group=2, comm="BF16", T=1, sps=1, graft=None, fixed=dict(mom=0), **P5)
    # parameter dtype (4 bytes) != communication dtype (2 bytes) with block sizes that are not 64-byte multiples in either
    add(world=2, group=2, comm="BF16", T=1, sps=1, graft=None, fixed=dict(mom=0, wd=0, b1=0), params=[(5, 5), (5,), (4, 3), (4,)], mpd=5, merge=False, mixed_sizes=True)
    add(world=2, group=2, comm="FP16", communicate_params=True, T=1, sps=1, graft="sgd", fixed=dict(mom=0, wd=0), **P5)
    if tier == "thorough":
        add(world=3, group=3, comm="BF16", communicate_params=True, T=1, sps=1, graft=None, **P5)
        add(world=4, group=4, comm="FP16", T=1, sps=1, graft="adam", **P5)
        add(world=4, group=4, communicate_params=True, **P5)
        add(world=3, group=1, **P5)
        add(world=4, group=1, graft=None, **P5)
        add(world=6, group=3, graft=None, fixed=dict(mom=0, wd=0), params=[(2, 4), (2, 2), (3,)], mpd=2, merge=False)
        add(world=8, group=8, graft=None, fixed=dict(mom=0, wd=0, b1=0), params=[(4, 4), (2, 4), (3,)], mpd=2, merge=False, T=1, sps=1)
        add(world=3, group=3, presence="symbolic", graft="sgd", fixed=dict(mom=0, wd=0), params=[(2, 2), (2,), (2,)], mpd=2, merge=False)
    return jobs


def run(tier, seed, argv):
    from vlib import par
    from vlib.report import Report

    rep = Report("C06", tier, seed)
    jobs = jobs_for(tier)
    if argv:
        jobs = [j for j in jobs if j["id"] in argv]
    rep.bounds = dict(world_sizes="1..4 (thorough: ..8)", group_sizes="divisors", communicate_params="on/off", communication_dtype="FP32; BF16/FP16 with rounding as an uninterpreted function, one step",
                      steps="T=2", presence="symbolic in one configuration (quick) / two (thorough)")
    rep.assumptions = ["torch.distributed is the stand-in's lock-step simulator: it checks the SPMD contract (same collective sequences), not backend timing; by the standard SPMD argument equal sequences make the result independent of interleaving",
                       "per-process caches (get_device_mesh) are made per simulated rank by the harness", "single-member process groups created by one rank only are logged but not counted (nothing can be shown to fail on a real backend)",
                       "as C01: real arithmetic, recording stubs, generic equality regime"]
    rep.validate_standin(6 if tier == "quick" else 24)
    rep.absorb("ddp", par.run_jobs(jobs, chunk=4))
    return rep.finish("checks.c06")


def replay(record):
    """Violations of C06 concern rank interleavings: replay with real torch.distributed (gloo, CPU, separate processes)."""
    from checks import c06_replay

    return c06_replay.replay(record)
