"""symtorch -- a pure-Python stand-in for the part of `torch` that facebookresearch/optimizers uses.

A Tensor is a numpy object-array (`.a`) plus a dtype tag.  Elements are symbolic scalars of
vlib.symx (SymReal / SymInt / SymBool) or, in *concrete mode* (used to validate this stand-in
against the real torch build), Python floats/ints/bools.  Shapes, strides, views and in-place
writes are numpy's, so aliasing is modelled exactly.  Only what the repository needs is
implemented; anything else raises NotImplementedError -> harness error (never a verdict).
"""
from __future__ import annotations

import builtins
import contextlib
import enum
import math
import sys
import types
from collections import defaultdict
from fractions import Fraction

import numpy as np

from vlib import symx
from vlib.symx import SymBool, SymInt, SymReal, HarnessError

__version__ = "symtorch-0.1"
_int, _float, _bool, _abs, _min, _max, _sum = builtins.int, builtins.float, builtins.bool, builtins.abs, builtins.min, builtins.max, builtins.sum

inf = math.inf
nan = math.nan


# ------------------------------------------------------------------------------------------ dtypes
class dtype:
    def __init__(self, name, bits, cat):
        self.name, self.bits, self.cat = name, bits, cat  # cat: 0 bool, 1 int, 2 float
        self.is_floating_point = cat == 2
        self.itemsize = _max(1, bits // 8)

    def __repr__(self):
        return "torch." + self.name

    def __reduce__(self):
        return (_dtype_by_name, (self.name,))

    def __deepcopy__(self, memo):
        return self

    def __copy__(self):
        return self


float32 = float = dtype("float32", 32, 2)
float64 = double = dtype("float64", 64, 2)
bfloat16 = dtype("bfloat16", 16, 2)
float16 = half = dtype("float16", 16, 2)
int64 = long = dtype("int64", 64, 1)
int32 = int = dtype("int32", 32, 1)
int16 = short = dtype("int16", 16, 1)
int8 = dtype("int8", 8, 1)
uint8 = dtype("uint8", 8, 1)
bool = dtype("bool", 8, 0)
_DTYPES = {d.name: d for d in (float32, float64, bfloat16, float16, int64, int32, int16, int8, uint8, bool)}


def _dtype_by_name(n):
    return _DTYPES[n]


class _FInfo:
    def __init__(self, d):
        if not d.is_floating_point:
            raise TypeError("finfo of non-float dtype")
        self.bits = d.bits
        self.eps = {"float32": 2.0**-23, "float64": 2.0**-52, "bfloat16": 2.0**-7, "float16": 2.0**-10}[d.name]


class _IInfo:
    def __init__(self, d):
        if d.is_floating_point:
            raise TypeError("iinfo of float dtype")
        self.bits = d.bits


finfo, iinfo = _FInfo, _IInfo


class device:
    def __init__(self, t="cpu", index=None):
        if isinstance(t, device):
            t = t.type
        t = str(t)
        if t.split(":")[0] not in ("cpu", "cuda", "meta"):
            raise RuntimeError(f"Expected one of cpu, cuda, ... device type at start of device string: {t}")
        self.type = t.split(":")[0]
        self.index = index

    def __eq__(s, o):
        return isinstance(o, device) and s.type == o.type

    def __ne__(s, o):
        return not s.__eq__(o)

    def __hash__(s):
        return hash(s.type)

    def __repr__(s):
        return f"device(type='{s.type}')"

    def __deepcopy__(s, memo):
        return s


_CPU = device("cpu")


class Size(tuple):
    def numel(self):
        return math.prod(self)

    def __repr__(self):
        return f"torch.Size({list(self)})"


# ------------------------------------------------------------------------------------------ elements
def _concrete():
    return symx.CTX.mode == "concrete"


def _elem(x, dt=None):
    cat = 2 if dt is None else dt.cat
    if isinstance(x, Tensor):
        x = x.a.reshape(-1)[0] if x.a.size == 1 else _raise(HarnessError("tensor as element"))
    if cat == 2:
        if _concrete():
            return _float(x)
        if isinstance(x, (SymReal,)):
            return x
        if isinstance(x, SymInt):
            return x.to_real()
        if isinstance(x, SymBool):
            raise HarnessError("symbolic bool as float element")
        if isinstance(x, (np.floating, np.integer)):
            x = x.item()
        return SymReal.lift(x) if not isinstance(x, _bool) else SymReal.const(_int(x))
    if cat == 1:
        if isinstance(x, (SymInt,)):
            return x
        if isinstance(x, SymReal):
            if x.c is not None and x.c.denominator == 1:
                return _int(x.c)
            raise HarnessError("symbolic real into int tensor")
        if isinstance(x, _float):
            return _int(x)
        return _int(x) if not isinstance(x, SymBool) else x
    # bool
    if isinstance(x, SymBool):
        return x
    if isinstance(x, SymReal):
        return (x != 0) if x.c is None else (x.c != 0)
    if isinstance(x, SymInt):
        return x != 0
    return _bool(x)


def _raise(e):
    raise e


def _zero(dt):
    if dt.cat == 2:
        return 0.0 if _concrete() else SymReal.const(0)
    return 0 if dt.cat == 1 else False


def _one(dt):
    if dt.cat == 2:
        return 1.0 if _concrete() else SymReal.const(1)
    return 1 if dt.cat == 1 else True


def _full(shape, val):
    a = np.empty(shape, dtype=object)
    a.fill(val) if a.size else None
    if a.ndim == 0:
        a[()] = val
    return a


def _scalar_arr(x, dt):
    a = np.empty((), dtype=object)
    a[()] = _elem(x, dt)
    return a


def _map(f, a):
    out = np.empty(a.shape, dtype=object)
    flat_in = a.reshape(-1) if a.flags["C_CONTIGUOUS"] else a.flatten()
    vals = [f(x) for x in flat_in]
    out_flat = out.reshape(-1)
    for i, v in enumerate(vals):
        out_flat[i] = v
    return out


def _isnum(x):
    return isinstance(x, (_int, _float, SymReal, SymInt, Fraction)) and not isinstance(x, _bool) or isinstance(x, _bool)


def _sqrt_e(x):
    return symx.sqrt(x)


def _pow_e(x, e):
    """element ** exponent (exponent concrete number, SymReal constant, or SymInt)."""
    if isinstance(e, Tensor):
        e = e.a.reshape(-1)[0]
    if isinstance(x, SymReal):
        return x**e
    if isinstance(e, SymReal):
        e = _float(e)
    return x**e


# ------------------------------------------------------------------------------------------ promotion
_DEFAULT_FLOAT = float32


def _promote_types(d1, d2):
    if d1 is d2:
        return d1
    if d1.cat != d2.cat:
        return d1 if d1.cat > d2.cat else d2
    if d1.cat == 2:
        if d1.bits == d2.bits:  # float16 x bfloat16
            return float32
        return d1 if d1.bits > d2.bits else d2
    if d1.cat == 1:
        if {d1.name, d2.name} == {"int8", "uint8"}:
            return int16
        return d1 if d1.bits > d2.bits else d2
    return d1


def _result_dtype(a, b, true_div=False):
    """a: Tensor; b: Tensor or python/symbolic scalar."""
    if isinstance(b, Tensor):
        da, db = a.dtype, b.dtype
        za, zb = a.a.ndim == 0, b.a.ndim == 0
        if za == zb:
            r = _promote_types(da, db)
        else:
            dim_t, zero_t = (db, da) if za else (da, db)
            r = zero_t if zero_t.cat > dim_t.cat else dim_t
    else:
        da = a.dtype
        if isinstance(b, (_float, SymReal, Fraction)) and not isinstance(b, _bool):
            r = da if da.cat == 2 else _DEFAULT_FLOAT
        elif isinstance(b, (_bool, SymBool)):
            r = da
        else:  # int-like
            r = da if da.cat >= 1 else int64
    if true_div and r.cat < 2:
        r = _DEFAULT_FLOAT
    return r


def _cast_elems(a, src, dst):
    """Convert an object array of `src` elements to `dst` elements (copying)."""
    if src.cat == dst.cat:
        if dst.cat == 2 and dst.bits < src.bits and dst.bits <= 16 and symx.CTX.opts.get("round_low_precision") and not _concrete():
            tag = "round_" + dst.name
            return _map(lambda x: x if (x.c is not None and x.c == 0) else symx.opaque(tag, [x]), a)
        return a.copy()
    return _map(lambda x: _elem(_to_py(x, src, dst), dst), a)


def _downcast_overflow(src, dst, t):
    """Optional model of overflow at a float downcast (C13): a finite value may become Inf -- a fresh symbolic event."""
    if not symx.CTX.opts.get("downcast_overflow") or _concrete() or src.cat != 2 or dst.cat != 2 or dst.bits >= src.bits:
        return False
    if t.a.size == 0 or builtins.all(isinstance(x, SymReal) and x.c is not None for x in t.a.reshape(-1)):
        return False  # constants of the harness / zeros do not overflow
    ev = symx.CTX.shared.setdefault("overflow_events", [])
    b = symx.symbool(f"overflow_{len(ev)}")
    ev.append(b)
    return b


def _to_py(x, src, dst):
    if dst.cat == 2:
        if isinstance(x, SymBool):
            raise HarnessError("symbolic bool -> float cast")
        return x if not isinstance(x, _bool) else _int(x)
    if dst.cat == 1:
        if isinstance(x, _float):
            return _int(x)
        if isinstance(x, SymReal):
            if x.c is not None:
                return _int(x.c)
            raise HarnessError("symbolic real -> int cast")
        return x
    return _elem(x, bool)


# ------------------------------------------------------------------------------------------ Tensor
class Tensor:
    __array_priority__ = 1000

    def __init__(self, a, dtype=float32, requires_grad=False):
        if not isinstance(a, np.ndarray):
            a = _scalar_arr(a, dtype)
        self.a = a
        self.dtype = dtype
        self.grad = None
        self.requires_grad = requires_grad
        self.device = _CPU
        self.nf_nan = False
        self.nf_inf = False

    # -- non-finite markers (C13): tensor-level flags, DESIGN 1.2
    def _nf_from(self, *srcs):
        for s in srcs:
            if isinstance(s, Tensor):
                self.nf_nan = _or(self.nf_nan, s.nf_nan)
                self.nf_inf = _or(self.nf_inf, s.nf_inf)
        return self

    # -- metadata
    @property
    def shape(self):
        return Size(self.a.shape)

    def size(self, d=None):
        return Size(self.a.shape) if d is None else self.a.shape[d]

    def dim(self):
        return self.a.ndim

    @property
    def ndim(self):
        return self.a.ndim

    def numel(self):
        return _int(self.a.size)

    def element_size(self):
        return self.dtype.itemsize

    def __len__(self):
        if self.a.ndim == 0:
            raise TypeError("len() of a 0-d tensor")
        return self.a.shape[0]

    __hash__ = object.__hash__

    def is_contiguous(self):
        return _bool(self.a.flags["C_CONTIGUOUS"])

    def stride(self, d=None):
        isz = self.a.itemsize
        st = tuple(s // isz for s in self.a.strides)
        return st if d is None else st[d]

    def storage_offset(self):
        root = getattr(self, "_root", None)
        if root is None:
            root = _base_of(self.a).__array_interface__["data"][0]
        cells = (self.a.__array_interface__["data"][0] - root) // self.a.itemsize
        return cells // (getattr(self, "_bytes_per_cell", None) or 1)

    def data_ptr(self):
        return self.a.__array_interface__["data"][0]

    def untyped_storage(self):
        return _Storage(_base_of(self.a))

    @property
    def is_cuda(self):
        return False

    @property
    def data(self):
        return self.detach()

    # -- construction helpers
    def _new(self, a, dtype=None):
        return Tensor(a, dtype or self.dtype)

    def new_zeros(self, *size, dtype=None):
        return zeros(*size, dtype=dtype or self.dtype)

    # -- views (share memory)
    def view(self, *shape):
        if len(shape) == 1 and isinstance(shape[0], dtype):
            return self._view_dtype(shape[0])
        if len(shape) == 1 and not isinstance(shape[0], (_int, SymInt)):
            shape = tuple(shape[0])
        shape = tuple(_int(s) for s in shape)
        if -1 in shape:
            known = -math.prod(shape)
            if known == 0 or self.a.size % known:
                raise RuntimeError(f"shape '{list(shape)}' is invalid for input of size {self.a.size}")
            shape = tuple(self.a.size // known if s == -1 else s for s in shape)
        if math.prod(shape) != self.a.size:
            raise RuntimeError(f"shape '{list(shape)}' is invalid for input of size {self.a.size}")
        v = self.a.view()
        try:
            v.shape = shape
        except AttributeError:
            raise RuntimeError("view size is not compatible with input tensor's size and stride (at least one dimension spans across two contiguous subspaces). Use .reshape(...) instead.")
        return self._alias(v)

    def _view_dtype(self, new):
        if new is self.dtype:
            return self._alias(self.a.view())
        if self.a.ndim != 1:
            raise HarnessError("dtype view of a non-1-d tensor")
        k_old, k_new = self.dtype.itemsize, new.itemsize
        if self.dtype is not int8 and k_old != 1:
            raise HarnessError("dtype view only modelled from byte buffers")
        n = self.a.shape[0]
        if n % k_new:
            raise RuntimeError("self.size(-1) must be divisible by the new element size to view as that dtype")
        if self.storage_offset() % k_new:
            raise RuntimeError("self.storage_offset() must be divisible by the new element size to view as that dtype")
        v = np.lib.stride_tricks.as_strided(self.a, shape=(n // k_new,), strides=(self.a.strides[0] * k_new,))
        t = Tensor(v, new)
        t._bytes_per_cell = k_new
        t._root = getattr(self, "_root", None) or _base_of(self.a).__array_interface__["data"][0]
        return t

    def _alias(self, a):
        t = Tensor(a, self.dtype)
        t.nf_nan, t.nf_inf = self.nf_nan, self.nf_inf
        t._root = getattr(self, "_root", None) or _base_of(self.a).__array_interface__["data"][0]
        if getattr(self, "_bytes_per_cell", None):
            t._bytes_per_cell = self._bytes_per_cell
        return t

    def reshape(self, *shape):
        if len(shape) == 1 and not isinstance(shape[0], _int):
            shape = tuple(shape[0])
        try:
            return self.view(*shape)
        except RuntimeError:
            return Tensor(self.a.reshape(shape).copy(), self.dtype)

    def flatten(self):
        return self.reshape(-1)

    def detach(self):
        return self._alias(self.a)

    def permute(self, *dims):
        if len(dims) == 1 and not isinstance(dims[0], _int):
            dims = tuple(dims[0])
        return self._alias(self.a.transpose(dims))

    def transpose(self, d0, d1):
        return self._alias(np.swapaxes(self.a, d0, d1))

    @property
    def T(self):
        return self._alias(self.a.T)

    def t(self):
        return self._alias(self.a.T)

    def unsqueeze(self, d):
        return self._alias(np.expand_dims(self.a, d))

    def squeeze(self, d=None):
        return self._alias(np.squeeze(self.a, axis=d))

    def narrow(self, dim, start, length):
        start, length = _int(start), _int(length)
        n = self.a.shape[dim]
        if start < 0 or length < 0 or start + length > n:
            raise RuntimeError(f"start ({start}) + length ({length}) exceeds dimension size ({n}).")
        sl = [slice(None)] * self.a.ndim
        sl[dim] = slice(start, start + length)
        return self._alias(self.a[tuple(sl)])

    def split(self, split_size, dim=0):
        return split(self, split_size, dim)

    def __getitem__(self, idx):
        if isinstance(idx, Tensor):
            if idx.dtype.cat == 1:
                ii = [_int(x) for x in idx.a.reshape(-1)]
                return Tensor(self.a[ii].copy(), self.dtype)
            raise HarnessError("bool mask indexing")
        if isinstance(idx, tuple) and builtins.any(isinstance(i, Tensor) for i in idx):
            idx2 = tuple([_int(x) for x in i.a.reshape(-1)] if isinstance(i, Tensor) else i for i in idx)
            return Tensor(self.a[idx2].copy(), self.dtype)
        r = self.a[idx]
        if not isinstance(r, np.ndarray):
            r0 = np.empty((), dtype=object)
            # keep aliasing for scalar selects: make a 0-d view
            r = self.a[idx if isinstance(idx, tuple) else (idx,)][...] if False else self.a[_as_view_index(idx, self.a.ndim)].reshape(())
        return self._alias(r)

    def __setitem__(self, idx, val):
        if isinstance(val, Tensor):
            self.a[idx] = _cast_elems(val.a, val.dtype, self.dtype)
        else:
            self.a[idx] = _elem(val, self.dtype)

    def __iter__(self):
        if self.a.ndim == 0:
            raise TypeError("iteration over a 0-d tensor")
        for i in range(self.a.shape[0]):
            yield self[i]

    # -- copies
    def clone(self):
        t = Tensor(self.a.copy(), self.dtype)
        return t._nf_from(self)

    def contiguous(self):
        return self if self.a.flags["C_CONTIGUOUS"] else self.clone()

    def to(self, *args, **kw):
        dt = kw.get("dtype")
        for x in args:
            if isinstance(x, dtype):
                dt = x
            elif isinstance(x, Tensor):
                dt = x.dtype
        if dt is None or dt is self.dtype:
            return self
        t = Tensor(_cast_elems(self.a, self.dtype, dt), dt)
        t._nf_from(self)
        t.nf_inf = _or(t.nf_inf, _downcast_overflow(self.dtype, dt, self))
        return t

    def type(self, dt):
        return self.to(dtype=dt)

    def double(self):
        return self.to(dtype=float64)

    def float(self):
        return self.to(dtype=float32)

    def half(self):
        return self.to(dtype=float16)

    def bfloat16(self):
        return self.to(dtype=bfloat16)

    def long(self):
        return self.to(dtype=int64)

    def cpu(self):
        return self

    def cuda(self, *a, **k):
        raise RuntimeError("no CUDA in symtorch")

    def numpy(self):
        return self.a

    def tolist(self):
        def conv(x):
            if isinstance(x, SymReal) and x.c is not None:
                return _float(x.c) if self.dtype.cat == 2 else _int(x.c)
            return x

        if self.a.ndim == 0:
            return conv(self.a[()])
        return _map(conv, self.a).tolist()

    def item(self):
        if self.a.size != 1:
            raise RuntimeError("a Tensor with more than one element cannot be converted to Scalar")
        v = self.a.reshape(-1)[0]
        if isinstance(v, SymInt):
            c = v.concrete()
            return v if c is None else c
        if isinstance(v, SymReal) and v.c is not None and self.dtype.cat == 2:
            return v  # keep exact
        return v

    def __deepcopy__(self, memo):
        t = self.__class__.__new__(self.__class__)
        memo[id(self)] = t
        for k, v in self.__dict__.items():
            if k == "a":
                t.a = self.a.copy()
            elif k == "grad":
                t.grad = None if v is None else v.clone()
            else:
                import copy

                t.__dict__[k] = copy.deepcopy(v, memo)
        return t

    def requires_grad_(self, flag=True):
        self.requires_grad = flag
        return self

    # -- arithmetic (out of place)
    def _oa(self, o):
        return o.a if isinstance(o, Tensor) else _elem(o, _scalar_dtype(o, self.dtype))

    def _bin(self, o, f, true_div=False):
        if not isinstance(o, Tensor) and not _isnum(o):
            return NotImplemented
        rd = _result_dtype(self, o, true_div)
        x = self.a if self.dtype.cat == rd.cat or self.dtype.cat > 0 else self.a
        return Tensor(_np(f(_prep(self, rd), _prep_o(o, rd))), rd)._nf_from(self, o)

    def __add__(s, o):
        return s._bin(o, lambda a, b: a + b)

    __radd__ = __add__

    def __sub__(s, o):
        return s._bin(o, lambda a, b: a - b)

    def __rsub__(s, o):
        return s._bin(o, lambda a, b: b - a)

    def __mul__(s, o):
        return s._bin(o, lambda a, b: a * b)

    __rmul__ = __mul__

    def __truediv__(s, o):
        return s._bin(o, lambda a, b: a / b, true_div=True)

    def __rtruediv__(s, o):
        return s._bin(o, lambda a, b: b / a, true_div=True)

    def __neg__(s):
        return Tensor(-s.a if s.a.ndim else _np(-s.a[()]), s.dtype)._nf_from(s)

    def __pos__(s):
        return s

    def __abs__(s):
        return Tensor(_map(_abs_e, s.a), s.dtype)._nf_from(s)

    abs = __abs__

    def add(s, o, alpha=1):
        if _is_one(alpha):
            return s + o
        return s + (o * alpha if isinstance(o, Tensor) else o * alpha)

    def sub(s, o, alpha=1):
        if _is_one(alpha):
            return s - o
        return s - o * alpha

    def mul(s, o):
        return s * o

    def div(s, o):
        return s / o

    def neg(s):
        return -s

    def square(s):
        return s * s

    def sqrt(s):
        return Tensor(_map(_sqrt_e, s.a), s.dtype if s.dtype.cat == 2 else float32)._nf_from(s)

    def pow(s, e):
        rd = s.dtype if s.dtype.cat == 2 else (float32 if isinstance(e, (_float, SymReal)) or (isinstance(e, Tensor) and e.dtype.cat == 2) else s.dtype)
        return Tensor(_map(lambda x: _pow_e(x, e), _prep(s, rd)), rd)._nf_from(s)

    __pow__ = pow

    def __rpow__(s, base):
        # python/symbolic scalar ** tensor
        rd = s.dtype if s.dtype.cat == 2 else (float32 if isinstance(base, (_float, SymReal)) else s.dtype)
        b = _elem(base, rd)
        return Tensor(_map(lambda k: _pow_e(b, k), s.a), rd)

    def __matmul__(s, o):
        return matmul(s, o)

    def matmul(s, o):
        return matmul(s, o)

    def mm(s, o):
        return matmul(s, o)

    def dot(s, o):
        return matmul(s, o)

    # -- in place
    def _inplace(self, vals, *srcs):
        self.a[...] = vals
        for s in srcs:
            self._nf_from(s)
        return self

    def _check_inplace_cat(self, o):
        rd = _result_dtype(self, o)
        if rd.cat > self.dtype.cat:
            raise RuntimeError(f"result type {rd} can't be cast to the desired output type {self.dtype}")

    def add_(s, o, alpha=1):
        s._check_inplace_cat(o)
        ob = _prep_o(o, s.dtype)
        if not _is_one(alpha):
            ob = ob * _elem(alpha, s.dtype)
        return s._inplace(_np(s.a + ob), o)

    def sub_(s, o, alpha=1):
        s._check_inplace_cat(o)
        ob = _prep_o(o, s.dtype)
        if not _is_one(alpha):
            ob = ob * _elem(alpha, s.dtype)
        return s._inplace(_np(s.a - ob), o)

    def mul_(s, o):
        s._check_inplace_cat(o)
        return s._inplace(_np(s.a * _prep_o(o, s.dtype)), o)

    def div_(s, o):
        if s.dtype.cat < 2:
            raise RuntimeError("result type Float can't be cast to the desired output type")
        return s._inplace(_np(s.a / _prep_o(o, s.dtype)), o)

    def pow_(s, e):
        return s._inplace(_map(lambda x: _pow_e(x, e), s.a))

    def sqrt_(s):
        return s._inplace(_map(_sqrt_e, s.a))

    def neg_(s):
        return s._inplace(_np(-s.a))

    def zero_(s):
        s.a[...] = _zero(s.dtype)
        s.nf_nan = s.nf_inf = False
        return s

    def fill_(s, v):
        s.a[...] = _elem(v, s.dtype)
        return s

    def copy_(s, o, non_blocking=False):
        if isinstance(o, Tensor):
            src = _cast_elems(o.a, o.dtype, s.dtype)
            if src.shape != s.a.shape:
                src = np.broadcast_to(src, s.a.shape)
            s.a[...] = src
            s.nf_nan, s.nf_inf = o.nf_nan, _or(o.nf_inf, _downcast_overflow(o.dtype, s.dtype, o))
        else:
            s.a[...] = _elem(o, s.dtype)
        return s

    def lerp_(s, end, weight):
        w = _elem(weight, s.dtype)
        return s._inplace(_np(s.a + (end.a - s.a) * w), end)

    def addcmul_(s, t1, t2, value=1):
        return s._inplace(_np(s.a + t1.a * t2.a * _elem(value, s.dtype)), t1, t2)

    # -- reductions / predicates
    def any(s):
        vals = list(s.a.reshape(-1)) if s.a.flags["C_CONTIGUOUS"] else list(s.a.flatten())
        return Tensor(_scalar_arr(_any([_truth(v) for v in vals]), bool), bool)

    def all(s):
        vals = list(s.a.flatten())
        return Tensor(_scalar_arr(_all([_truth(v) for v in vals]), bool), bool)

    def sum(s, dim=None):
        if dim is None:
            return Tensor(_scalar_arr(_sum_e(list(s.a.flatten()), s.dtype), s.dtype), s.dtype if s.dtype.cat else int64)._nf_from(s)
        return Tensor(_np(np.sum(s.a, axis=dim)), s.dtype)._nf_from(s)

    def norm(s, p=2, dim=None, keepdim=False):
        return linalg.vector_norm(s, p, dim, keepdim)

    def min(s):
        return min(s)

    def max(s):
        return max(s)

    def trace(s):
        return trace(s)

    def diagonal(s):
        return diagonal(s)

    def triu(s, diagonal=0):
        return _tri(s, diagonal, True)

    def tril(s, diagonal=0):
        return _tri(s, diagonal, False)

    def argsort(s):
        return argsort(s)

    def isnan(s):
        return isnan(s)

    def isinf(s):
        return isinf(s)

    def isfinite(s):
        return isfinite(s)

    def count_nonzero(s):
        return count_nonzero(s)

    # -- comparisons
    def _cmp(s, o, opname):
        ob = o.a if isinstance(o, Tensor) else o
        import operator

        op = getattr(operator, opname)
        if s.a.ndim == 0 and (not isinstance(ob, np.ndarray) or ob.ndim == 0):
            x = s.a[()]
            y = ob[()] if isinstance(ob, np.ndarray) else ob
            return Tensor(_scalar_arr(_cmp_e(x, y, op), bool), bool)
        a2, b2 = np.broadcast_arrays(s.a, ob if isinstance(ob, np.ndarray) else _full((), ob))
        out = np.empty(a2.shape, dtype=object)
        for idx in np.ndindex(*a2.shape):
            out[idx] = _cmp_e(a2[idx], b2[idx], op)
        return Tensor(out, bool)

    def __lt__(s, o):
        return s._cmp(o, "lt")

    def __le__(s, o):
        return s._cmp(o, "le")

    def __gt__(s, o):
        return s._cmp(o, "gt")

    def __ge__(s, o):
        return s._cmp(o, "ge")

    def __eq__(s, o):
        if not isinstance(o, Tensor) and not _isnum(o):
            return NotImplemented
        return s._cmp(o, "eq")

    def __ne__(s, o):
        if not isinstance(o, Tensor) and not _isnum(o):
            return NotImplemented
        return s._cmp(o, "ne")

    def __invert__(s):
        if s.dtype is not bool:
            raise HarnessError("~ on non-bool tensor")
        return Tensor(_map(lambda x: (not x) if isinstance(x, _bool) else ~x, s.a), bool)

    def __and__(s, o):
        return Tensor(_np(s.a & o.a), bool)

    def __or__(s, o):
        return Tensor(_np(s.a | o.a), bool)

    def __bool__(s):
        if s.a.size != 1:
            raise RuntimeError("Boolean value of Tensor with more than one value is ambiguous")
        return _bool(_truth(s.a.reshape(-1)[0]))

    def __float__(s):
        v = s.item()
        if isinstance(v, SymReal):
            if v.c is None:
                raise HarnessError("float() of a symbolic tensor element")
            return _float(v.c)
        return _float(v)

    def __int__(s):
        v = s.item()
        if isinstance(v, SymReal):
            return _int(v.c)
        return _int(v)

    def __index__(s):
        return s.__int__()

    def __repr__(s):
        return f"symtensor(shape={tuple(s.a.shape)}, dtype={s.dtype})"

    __str__ = __repr__

    def __format__(s, spec):
        return repr(s)

    # -- distributed placeholder
    def to_local(self):
        raise AttributeError("'Tensor' object has no attribute 'to_local'")


def _as_view_index(idx, ndim):
    """Turn integer indices into length-1 slices so that the result stays a view."""
    if not isinstance(idx, tuple):
        idx = (idx,)
    out = []
    for i in idx:
        if isinstance(i, (_int, np.integer)):
            out.append(slice(i, i + 1) if i != -1 else slice(i, None))
        else:
            out.append(i)
    return tuple(out)


class _Storage:
    def __init__(self, base):
        self.base = base

    def data_ptr(self):
        return self.base.__array_interface__["data"][0]

    def nbytes(self):
        return self.base.size


def _base_of(a):
    while isinstance(a.base, np.ndarray):
        a = a.base
    return a


def _np(x):
    if isinstance(x, np.ndarray):
        return x
    r = np.empty((), dtype=object)
    r[()] = x
    return r


def _scalar_dtype(o, like):
    if isinstance(o, (_bool, SymBool)):
        return like
    if isinstance(o, (_int, SymInt)):
        return like
    return like if like.cat == 2 else float32


def _prep(t, rd):
    """array of t's elements converted to the element kind of rd."""
    if t.dtype.cat == rd.cat:
        return t.a
    return _cast_elems(t.a, t.dtype, rd)


def _prep_o(o, rd):
    if isinstance(o, Tensor):
        return _prep(o, rd)
    return _elem(o, rd)


def _is_one(x):
    return isinstance(x, (_int, _float)) and not isinstance(x, _bool) and x == 1


def _or(a, b):
    if a is False:
        return b
    if b is False:
        return a
    if a is True or b is True:
        return True
    return a | b


def _truth(v):
    if isinstance(v, (_bool, SymBool)):
        return v
    if isinstance(v, SymReal):
        return (v.c != 0) if v.c is not None else (v != 0)
    if isinstance(v, SymInt):
        return v != 0
    return v != 0


def _any(vals):
    sym = []
    for v in vals:
        if isinstance(v, SymBool):
            sym.append(v)
        elif v:
            return True
    if not sym:
        return False
    import z3

    pin = None
    return SymBool(z3.Or([s.e for s in sym]) if len(sym) > 1 else sym[0].e)


def _all(vals):
    sym = []
    for v in vals:
        if isinstance(v, SymBool):
            sym.append(v)
        elif not v:
            return False
    if not sym:
        return True
    import z3

    return SymBool(z3.And([s.e for s in sym]) if len(sym) > 1 else sym[0].e)


def _cmp_e(x, y, op):
    if isinstance(y, Tensor):
        y = y.a.reshape(-1)[0]
    if isinstance(x, SymInt) and isinstance(y, (SymReal, _float)):
        x = x.to_real()
    if isinstance(y, SymInt) and isinstance(x, (SymReal, _float)):
        y = y.to_real()
    return op(x, y)


def _abs_e(x):
    return _abs(x)


def _sum_e(vals, dt):
    s = _zero(dt if dt.cat else int64)
    for v in vals:
        s = s + (v if not isinstance(v, _bool) else _int(v))
    return s


class Parameter(Tensor):
    def __init__(self, data=None, requires_grad=True):
        if data is None:
            data = zeros(0)
        Tensor.__init__(self, data.a, data.dtype, requires_grad)

    def __repr__(s):
        return f"Parameter(shape={tuple(s.a.shape)}, dtype={s.dtype})"


# ------------------------------------------------------------------------------------------ factories
def _shape_args(size):
    if len(size) == 1 and not isinstance(size[0], (_int, SymInt)):
        size = tuple(size[0])
    return tuple(_int(s) for s in size)


def _infer_dtype(data):
    flat = np.asarray(data, dtype=object).reshape(-1) if not _isnum(data) else [data]
    cat = 0
    for x in flat:
        if isinstance(x, (_bool, SymBool)):
            continue
        if isinstance(x, (_int, SymInt, np.integer)):
            cat = _max(cat, 1)
        else:
            cat = 2
    if len(flat) == 0:
        cat = 2
    return (bool, int64, float32)[cat]


def tensor(data, dtype=None, device=None, requires_grad=False):
    if isinstance(data, Tensor):
        return data.clone() if dtype is None else data.to(dtype=dtype).clone()
    dt = dtype or _infer_dtype(data)
    if _isnum(data) or isinstance(data, SymBool):
        t = Tensor(_scalar_arr(data, dt), dt, requires_grad)
        if symx.CTX.opts.get("round_double_inputs") and dt.cat == 2 and dt.bits < 64 and isinstance(data, SymReal) and data.c is None and not _concrete():
            # a Python float (a double) stored into a lower-precision tensor is rounded: uninterpreted round_<dtype>(x) (opt-in per check)
            t.a[()] = symx.opaque("round_" + dt.name, [data])
        return t
    src = np.asarray(data, dtype=object) if not isinstance(data, np.ndarray) else data
    if src.dtype != object:
        src = src.astype(object)
    return Tensor(_map(lambda x: _elem(x, dt), src), dt, requires_grad)


def as_tensor(data, dtype=None, device=None):
    if isinstance(data, Tensor):
        return data if dtype is None else data.to(dtype=dtype)
    return tensor(data, dtype=dtype)


def zeros(*size, dtype=None, device=None, requires_grad=False, **kw):
    if "size" in kw:
        size = (kw["size"],)
    dt = dtype or float32
    return Tensor(_full(_shape_args(size), _zero(dt)), dt, requires_grad)


def ones(*size, dtype=None, device=None, **kw):
    dt = dtype or float32
    return Tensor(_full(_shape_args(size), _one(dt)), dt)


def empty(*size, dtype=None, device=None, **kw):
    return zeros(*size, dtype=dtype)


def full(size, fill_value, dtype=None, device=None):
    dt = dtype or _infer_dtype(fill_value)
    return Tensor(_full(tuple(size), _elem(fill_value, dt)), dt)


def zeros_like(t, dtype=None, **kw):
    return zeros(t.shape, dtype=dtype or t.dtype)


def ones_like(t, dtype=None, **kw):
    return ones(t.shape, dtype=dtype or t.dtype)


def empty_like(t, dtype=None, **kw):
    return zeros(t.shape, dtype=dtype or t.dtype)


def eye(n, m=None, dtype=None, device=None):
    dt = dtype or float32
    t = zeros((n, m or n), dtype=dt)
    for i in range(_min(n, m or n)):
        t.a[i, i] = _one(dt)
    return t


def arange(*args, dtype=None, device=None):
    vals = list(range(*[_int(a) for a in args]))
    return tensor(vals, dtype=dtype or int64) if vals else zeros(0, dtype=dtype or int64)


def numel(t):
    return t.numel()


def is_tensor(x):
    return isinstance(x, Tensor)


def randn(*size, dtype=None, **kw):
    raise HarnessError("torch.randn in symtorch")


# ------------------------------------------------------------------------------------------ functions
def split(t, split_size_or_sections, dim=0):
    n = t.a.shape[dim]
    if isinstance(split_size_or_sections, SymInt):
        # concretise a symbolic chunk size against the (concrete) dimension: 1..n-1, or ">= n"
        ss = split_size_or_sections
        for k in range(1, n):
            if ss == k:
                return split(t, k, dim)
        if ss >= _max(n, 1):
            return split(t, _max(n, 1), dim)
        raise RuntimeError("split expects split_size be non-negative")
    if isinstance(split_size_or_sections, (_int,)):
        ss = split_size_or_sections
        if ss < 0 or (ss == 0 and n != 0):
            raise RuntimeError(f"split expects split_size be non-negative, but got split_size={ss}")
        if n == 0:
            sizes = [0]
        else:
            sizes = [_min(ss, n - i) for i in range(0, n, ss)]
    else:
        sizes = [_int(s) for s in split_size_or_sections]
        if _sum(sizes) != n:
            raise RuntimeError(f"split_with_sizes expects split_sizes to sum exactly to {n} (input tensor's size at dimension {dim}), but got split_sizes={sizes}")
    out, off = [], 0
    for s in sizes:
        out.append(t.narrow(dim, off, s))
        off += s
    return tuple(out)


def _same_dtype(a, b, what):
    if a.dtype is not b.dtype:
        raise RuntimeError(f"expected m1 and m2 to have the same dtype, but got: {a.dtype} != {b.dtype} ({what})")


def matmul(a, b):
    _same_dtype(a, b, "matmul")
    if a.a.ndim == 0 or b.a.ndim == 0:
        raise RuntimeError("both arguments to matmul need to be at least 1D")
    if a.a.shape[-1] != b.a.shape[0 if b.a.ndim == 1 else -2]:
        raise RuntimeError(f"mat1 and mat2 shapes cannot be multiplied ({tuple(a.a.shape)} and {tuple(b.a.shape)})")
    return Tensor(_np(_dot(a.a, b.a)), a.dtype)._nf_from(a, b)


mm = matmul


def _dot(x, y):
    if x.size == 0 or y.size == 0:
        shp = x.shape[:-1] + (y.shape[1:] if y.ndim > 1 else ())
        return _full(shp, 0.0 if _concrete() else SymReal.const(0))
    return np.dot(x, y)


def tensordot(a, b, dims):
    _same_dtype(a, b, "tensordot")
    if isinstance(dims, _int):
        da, db = list(range(a.a.ndim - dims, a.a.ndim)), list(range(dims))
    else:
        da, db = list(dims[0]), list(dims[1])
    for i, j in zip(da, db):
        if a.a.shape[i] != b.a.shape[j]:
            raise RuntimeError(f"contracted dimensions need to match, but first has size {a.a.shape[i]} in dim {i} and second has size {b.a.shape[j]} in dim {j}")
    if len(da) == 0:
        r = np.multiply.outer(a.a, b.a)
    else:
        r = np.tensordot(a.a, b.a, axes=(da, db))
    return Tensor(_np(r), a.dtype)._nf_from(a, b)


def addmm(inp, m1, m2, *, beta=1, alpha=1):
    _same_dtype(m1, m2, "addmm")
    _same_dtype(inp, m1, "addmm")
    r = _dot(m1.a, m2.a)
    if not _is_one(alpha):
        r = r * _elem(alpha, inp.dtype)
    return Tensor(_np(inp.a * _elem(beta, inp.dtype) + r if not _is_one(beta) else inp.a + r), inp.dtype)._nf_from(inp, m1, m2)


def add(a, b, alpha=1):
    return a.add(b, alpha=alpha)


def mul(a, b):
    return a * b


def sub(a, b, alpha=1):
    return a.sub(b, alpha=alpha)


def div(a, b):
    return a / b


def sqrt(a):
    return a.sqrt()


def square(a):
    return a.square()


def abs(a):
    return a.abs()


def clone(a):
    return a.clone()


def diag(t):
    if t.a.ndim == 1:
        n = t.a.shape[0]
        out = zeros((n, n), dtype=t.dtype)
        for i in range(n):
            out.a[i, i] = t.a[i]
        return out._nf_from(t)
    return Tensor(np.diagonal(t.a).copy(), t.dtype)._nf_from(t)


def diagonal(t):
    v = np.lib.stride_tricks.as_strided(t.a, shape=(_min(t.a.shape),), strides=(_sum(t.a.strides),), writeable=True) if t.a.ndim == 2 else None
    if v is None:
        raise HarnessError("diagonal of non-matrix")
    return t._alias(v)


def trace(t):
    s = _zero(t.dtype)
    for i in range(_min(t.a.shape)):
        s = s + t.a[i, i]
    return Tensor(_scalar_arr(s, t.dtype), t.dtype)._nf_from(t)


def _tri(t, k, upper):
    a = t.a.copy()
    z = _zero(t.dtype)
    for i, j in np.ndindex(*a.shape):
        if (upper and j - i < k) or (not upper and j - i > k):
            a[i, j] = z
    return Tensor(a, t.dtype)._nf_from(t)


def triu(t, diagonal=0):
    return _tri(t, diagonal, True)


def tril(t, diagonal=0):
    return _tri(t, diagonal, False)


def _minmax_e(x, y, want_min):
    """min/max of two elements; symbolic -> fork on the comparison (data condition)."""
    c = x <= y
    return (x if c else y) if want_min else (y if c else x)


def min(t, *a):
    if a:
        raise HarnessError("torch.min with dim")
    vals = list(t.a.flatten())
    m = vals[0]
    for v in vals[1:]:
        m = _minmax_e(m, v, True)
    return Tensor(_scalar_arr(m, t.dtype), t.dtype)


def max(t, *a):
    if a:
        raise HarnessError("torch.max with dim")
    vals = list(t.a.flatten())
    m = vals[0]
    for v in vals[1:]:
        m = _minmax_e(m, v, False)
    return Tensor(_scalar_arr(m, t.dtype), t.dtype)


def minimum(a, b):
    rd = _result_dtype(a, b)
    x, y = np.broadcast_arrays(_prep(a, rd), _prep(b, rd))
    out = np.empty(x.shape, dtype=object)
    for idx in np.ndindex(*x.shape):
        out[idx] = _minmax_e(x[idx], y[idx], True)
    return Tensor(out, rd)


def maximum(a, b):
    rd = _result_dtype(a, b)
    x, y = np.broadcast_arrays(_prep(a, rd), _prep(b, rd))
    out = np.empty(x.shape, dtype=object)
    for idx in np.ndindex(*x.shape):
        out[idx] = _minmax_e(x[idx], y[idx], False)
    return Tensor(out, rd)


def isnan(t):
    r = Tensor(_full(t.a.shape, False), bool)
    r._flag = t.nf_nan
    r.__class__ = _FlagTensor
    return r


def isinf(t):
    r = Tensor(_full(t.a.shape, False), bool)
    r._flag = t.nf_inf
    r.__class__ = _FlagTensor
    return r


def isfinite(t):
    r = Tensor(_full(t.a.shape, True), bool)
    r._flag = _or(t.nf_nan, t.nf_inf)
    r.__class__ = _FiniteTensor
    return r


class _FlagTensor(Tensor):
    """Result of isnan/isinf: elementwise False plus the tensor-level non-finite marker."""

    def any(s):
        f = s._flag
        return Tensor(_scalar_arr(f if isinstance(f, (_bool, SymBool)) else _bool(f), bool), bool)


class _FiniteTensor(Tensor):
    """Result of isfinite: elementwise True unless the tensor carries a non-finite marker."""

    def _neg(s):
        f = s._flag
        return (not f) if isinstance(f, _bool) else ~f

    def all(s):
        return Tensor(_scalar_arr(s._neg(), bool), bool)

    def any(s):
        return Tensor(_scalar_arr(s._neg() if s.a.size else False, bool), bool)

    def __invert__(s):
        r = Tensor(_full(s.a.shape, False), bool)
        r._flag = s._flag
        r.__class__ = _FlagTensor
        return r


def count_nonzero(t):
    n = 0
    for v in t.a.flatten():
        if _bool(_truth(v)):
            n += 1
    return tensor(n)


def argsort(t):
    """Ascending argsort of a 1-d tensor; symbolic entries fork over the orderings (insertion sort)."""
    vals = list(t.a.reshape(-1))
    order = []
    for i, v in enumerate(vals):
        pos = len(order)
        for j, k in enumerate(order):
            if _bool(v < vals[k]):
                pos = j
                break
        order.insert(pos, i)
    return tensor(order, dtype=int64)


def einsum(eq, *ops):
    eq = eq.replace(" ", "")
    ins, out = eq.split("->")
    ins = ins.split(",")
    idx = sorted(set("".join(ins)))
    dims = {}
    for spec, op in zip(ins, ops):
        for ch, n in zip(spec, op.a.shape):
            dims[ch] = n
    dt = ops[0].dtype
    res = _full(tuple(dims[c] for c in out), _zero(dt))
    summed = [c for c in idx if c not in out]
    import itertools

    for oi in itertools.product(*[range(dims[c]) for c in out]):
        env = dict(zip(out, oi))
        acc = _zero(dt)
        for si in itertools.product(*[range(dims[c]) for c in summed]):
            env.update(zip(summed, si))
            term = None
            for spec, op in zip(ins, ops):
                v = op.a[tuple(env[c] for c in spec)]
                term = v if term is None else term * v
            acc = acc + term
        res[oi] = acc
    t = Tensor(res, dt)
    for op in ops:
        t._nf_from(op)
    return t


def dist(a, b, p=2):
    return linalg.vector_norm(a - b, p)


def norm(t, p=2, dim=None, keepdim=False):
    return linalg.vector_norm(t, p, dim, keepdim)


def set_printoptions(**k):
    pass


def manual_seed(s):
    pass


def get_default_dtype():
    return float32


# ------------------------------------------------------------------------------------------ norms
NORM_LOG = []  # (kind, p, result element, argument array copy) -- lets harnesses state facts about norm atoms


def _norm_value(vals, p, dt):
    if _concrete():
        fv = [_float(v) for v in vals]
        if p == 2:
            return math.sqrt(_sum(v * v for v in fv))
        if p == inf:
            return _max([_abs(v) for v in fv], default=0.0)
        if p == 1:
            return _sum(_abs(v) for v in fv)
        raise HarnessError(f"norm p={p}")
    if p == 2:
        return symx.norm2(vals)
    if p in (inf, 1):
        if builtins.all(isinstance(v, SymReal) and v.c is not None for v in vals):
            av = [_abs(v.c) for v in vals]
            return SymReal.const(_max(av, default=0) if p == inf else _sum(av))
        # opaque non-negative atom keyed on its arguments
        r = symx.opaque("norm_inf" if p == inf else "norm_1", list(vals), lo=0)
        return r
    raise HarnessError(f"norm p={p}")


class _Linalg:
    @staticmethod
    def vector_norm(t, ord=2, dim=None, keepdim=False):
        dt = t.dtype if t.dtype.cat == 2 else float32
        if dim is not None:
            # norm of every 1-d slice along one dimension (each an atom keyed on its own entries)
            if not isinstance(dim, builtins.int):
                raise HarnessError("vector_norm with several dims")
            d = dim % t.a.ndim
            moved = np.moveaxis(t.a, d, -1)
            out = np.empty(moved.shape[:-1], dtype=object)
            for idx in np.ndindex(*moved.shape[:-1]):
                r = _norm_value(list(moved[idx]), ord, dt)
                NORM_LOG.append(("vector", ord, r, np.array(moved[idx], dtype=object)))
                out[idx] = r
            if keepdim:
                out = np.expand_dims(out, d)
            return Tensor(out, dt)._nf_from(t)
        vals = list(t.a.flatten())
        r = _norm_value(vals, ord, dt)
        NORM_LOG.append(("vector", ord, r, t.a.copy()))
        return Tensor(_scalar_arr(r, dt), dt)._nf_from(t)

    @staticmethod
    def norm(t, ord=None, dim=None):
        if ord is None or ord == "fro":
            return _Linalg.vector_norm(t, 2)
        if t.a.ndim == 1:
            return _Linalg.vector_norm(t, ord)
        return _Linalg.matrix_norm(t, ord)

    @staticmethod
    def matrix_norm(t, ord="fro"):
        if ord == "fro":
            return _Linalg.vector_norm(t, 2)
        if ord == inf:
            # max row sum of absolute values
            if _concrete():
                r = _max(_sum(_abs(_float(v)) for v in row) for row in t.a)
            else:
                r = symx.opaque("matnorm_inf", list(t.a.flatten()), lo=0)
            NORM_LOG.append(("matrix", ord, r, t.a.copy()))
            return Tensor(_scalar_arr(r, t.dtype), t.dtype)._nf_from(t)
        raise HarnessError(f"matrix_norm ord={ord}")

    @staticmethod
    def matrix_power(t, k):
        k = _int(k)
        if k < 0:
            raise HarnessError("negative matrix power")
        if k == 0:
            return eye(t.a.shape[0], dtype=t.dtype)
        # same multiplication schedule is irrelevant for exact arithmetic
        r = t
        for _ in range(k - 1):
            r = matmul(r, t)
        return r if k > 1 else t.clone()

    # eigh / qr are environment stubs: the harness installs them (DESIGN 1.2); in concrete mode (validation of this
    # stand-in against the real torch) they fall back to LAPACK through numpy
    @staticmethod
    def eigh(A):
        h = symx.CTX.opts.get("eigh")
        if h is None:
            if _concrete():
                m = np.array(A.a.tolist(), dtype=np.float64)
                L, Q = np.linalg.eigh(m)
                return Tensor(_map(_float, L.astype(object)), A.dtype), Tensor(_map(_float, Q.astype(object)), A.dtype)
            raise HarnessError("torch.linalg.eigh called without an installed stub")
        return h(A)

    @staticmethod
    def qr(A):
        h = symx.CTX.opts.get("qr")
        if h is None:
            if _concrete():
                from collections import namedtuple

                m = np.array(A.a.tolist(), dtype=np.float64)
                Q, R = np.linalg.qr(m)
                return namedtuple("QR", ["Q", "R"])(Tensor(_map(_float, Q.astype(object)), A.dtype), Tensor(_map(_float, R.astype(object)), A.dtype))
            raise HarnessError("torch.linalg.qr called without an installed stub")
        return h(A)


linalg = _Linalg()


# ------------------------------------------------------------------------------------------ foreach
def _lst(x, i):
    return x[i] if isinstance(x, (tuple, list)) else x


def _chk(xs, *others):
    if len(xs) == 0:
        raise RuntimeError("Tensor list must have at least one tensor.")
    for o in others:
        if isinstance(o, (tuple, list)) and len(o) != len(xs):
            raise RuntimeError(f"Tensor lists must have the same number of tensors, got {len(xs)} and {len(o)}")


def _foreach_add_(xs, ys, alpha=1):
    _chk(xs, ys)
    for i, x in enumerate(xs):
        x.add_(_lst(ys, i), alpha=alpha)


def _foreach_add(xs, ys, alpha=1):
    _chk(xs, ys)
    return tuple(x.add(_lst(ys, i), alpha=alpha) for i, x in enumerate(xs))


def _foreach_sub_(xs, ys, alpha=1):
    _chk(xs, ys)
    for i, x in enumerate(xs):
        x.sub_(_lst(ys, i), alpha=alpha)


def _foreach_mul_(xs, ys):
    _chk(xs, ys)
    for i, x in enumerate(xs):
        x.mul_(_lst(ys, i))


def _foreach_mul(xs, ys):
    _chk(xs, ys)
    return tuple(x * _lst(ys, i) for i, x in enumerate(xs))


def _foreach_div_(xs, ys):
    _chk(xs, ys)
    for i, x in enumerate(xs):
        x.div_(_lst(ys, i))


def _foreach_div(xs, ys):
    _chk(xs, ys)
    return tuple(x / _lst(ys, i) for i, x in enumerate(xs))


def _foreach_copy_(xs, ys, non_blocking=False):
    _chk(xs, ys)
    for x, y in zip(xs, ys):
        if x.a.shape != y.a.shape:
            raise RuntimeError(f"The size of tensor a {tuple(x.a.shape)} must match the size of tensor b {tuple(y.a.shape)}")
        x.copy_(y)


def _foreach_sqrt_(xs):
    _chk(xs)
    for x in xs:
        x.sqrt_()


def _foreach_sqrt(xs):
    _chk(xs)
    return tuple(x.sqrt() for x in xs)


def _foreach_neg_(xs):
    _chk(xs)
    for x in xs:
        x.neg_()


def _foreach_norm(xs, ord=2):
    _chk(xs)
    return tuple(linalg.vector_norm(x, ord) for x in xs)


def _foreach_lerp(xs, ys, weight):
    _chk(xs, ys)
    out = []
    for x, y in zip(xs, ys):
        _same_dtype(x, y, "lerp")
        w = _elem(weight, x.dtype)
        out.append(Tensor(_np(x.a + (y.a - x.a) * w), x.dtype)._nf_from(x, y))
    return tuple(out)


def _foreach_lerp_(xs, ys, weight):
    _chk(xs, ys)
    for x, y in zip(xs, ys):
        _same_dtype(x, y, "lerp_")
        x.lerp_(y, weight)


def _foreach_addcmul_(xs, t1, t2, value=1):
    _chk(xs, t1, t2)
    for x, a, b in zip(xs, t1, t2):
        x.addcmul_(a, b, value=value)


def _foreach_addcdiv_(xs, t1, t2, value=1):
    _chk(xs, t1, t2)
    for x, a, b in zip(xs, t1, t2):
        x._inplace(_np(x.a + a.a / b.a * _elem(value, x.dtype)), a, b)


def _foreach_zero_(xs):
    _chk(xs)
    for x in xs:
        x.zero_()


# ------------------------------------------------------------------------------------------ autograd / misc
class _NoGrad(contextlib.ContextDecorator):
    def __enter__(s):
        return s

    def __exit__(s, *a):
        return False


def no_grad():
    return _NoGrad()


enable_grad = no_grad
inference_mode = no_grad


class _Compiler:
    @staticmethod
    def disable(fn=None, recursive=True):
        if fn is None:
            return lambda f: f
        return fn

    @staticmethod
    def is_compiling():
        return False


compiler = _Compiler()


def compile(fn=None, **k):
    raise HarnessError("torch.compile is outside the model (C18 is not applicable)")


def _mk(name):
    m = types.ModuleType(name)
    sys.modules[name] = m
    return m


class _Matmul:
    allow_tf32 = False


backends = _mk("torch.backends")
backends.cuda = _mk("torch.backends.cuda")
backends.cuda.matmul = _Matmul()
cuda = _mk("torch.cuda")
cuda.is_available = lambda: False
cuda.empty_cache = lambda: None
cuda.device_count = lambda: 0

nn = _mk("torch.nn")


class Module:
    def __init__(self):
        pass

    def named_parameters(self):
        for k, v in self.__dict__.items():
            if isinstance(v, Parameter):
                yield k, v

    def parameters(self):
        for _, v in self.named_parameters():
            yield v


nn.Parameter = Parameter
nn.Module = Module
nn.parameter = _mk("torch.nn.parameter")
nn.parameter.Parameter = Parameter
nn.init = _mk("torch.nn.init")
nn.functional = _mk("torch.nn.functional")
nn.Linear = None

autograd = _mk("torch.autograd")


class _Profiler:
    @staticmethod
    @contextlib.contextmanager
    def record_function(name):
        yield


autograd.profiler = _mk("torch.autograd.profiler")
autograd.profiler.record_function = _Profiler.record_function

# ------------------------------------------------------------------------------------------ optim
optim = _mk("torch.optim")
optim.optimizer = _mk("torch.optim.optimizer")
from typing import Any, Dict  # noqa: E402

optim.optimizer.ParamsT = Any
optim.optimizer.StateDict = Dict[str, Any]


class Optimizer:
    """The documented contract of torch.optim.Optimizer that DistributedShampoo relies on."""

    def __init__(self, params, defaults):
        self.defaults = defaults
        if isinstance(params, Tensor):
            raise TypeError("params argument given to the optimizer should be an iterable of Tensors or dicts, but got Tensor")
        self.state = defaultdict(dict)
        self.param_groups = []
        param_groups = list(params)
        if len(param_groups) == 0:
            raise ValueError("optimizer got an empty parameter list")
        if not isinstance(param_groups[0], dict):
            param_groups = [{"params": param_groups}]
        for g in param_groups:
            self.add_param_group(g)

    def add_param_group(self, param_group):
        if not isinstance(param_group, dict):
            raise TypeError(f"param_group must be a dict, but got {type(param_group)}")
        params = param_group["params"]
        if isinstance(params, Tensor):
            param_group["params"] = [params]
        elif isinstance(params, set):
            raise TypeError("optimizer parameters need to be organized in ordered collections")
        else:
            param_group["params"] = list(params)
        for p in param_group["params"]:
            if not isinstance(p, Tensor):
                raise TypeError("optimizer can only optimize Tensors")
        for name, default in self.defaults.items():
            param_group.setdefault(name, default)
        seen = set()
        for g in self.param_groups:
            seen.update(id(p) for p in g["params"])
        if builtins.any(id(p) in seen for p in param_group["params"]):
            raise ValueError("some parameters appear in more than one parameter group")
        self.param_groups.append(param_group)

    def zero_grad(self, set_to_none=True):
        for g in self.param_groups:
            for p in g["params"]:
                p.grad = None


optim.Optimizer = Optimizer
optim.optimizer.Optimizer = Optimizer

# ------------------------------------------------------------------------------------------ distributed
from . import _sim  # noqa: E402

_sim.install(sys.modules[__name__])
from . import _extra  # noqa: E402

_extra.install(sys.modules[__name__])
