"""Further torch API that behaviour-preserving refactorings of the repository plausibly use (kept separate from the core)."""
from __future__ import annotations

import builtins

import numpy as np


def install(T):
    Tensor = T.Tensor
    _np, _elem, _map = T._np, T._elem, T._map

    def pow(a, e):
        if isinstance(a, Tensor):
            return a.pow(e)
        return e.__rpow__(a)

    def neg(a):
        return -a

    def reciprocal(a):
        return 1.0 / a

    def rsqrt(a):
        return 1.0 / a.sqrt()

    def sum(a, dim=None):
        return a.sum(dim)

    def mean(a, dim=None):
        return a.mean(dim)

    def dot(a, b):
        return T.matmul(a, b)

    def outer(a, b):
        T._same_dtype(a, b, "outer")
        return Tensor(_np(np.multiply.outer(a.a, b.a)), a.dtype)._nf_from(a, b)

    def stack(ts, dim=0):
        ts = list(ts)
        return Tensor(np.stack([t.a for t in ts], axis=dim), ts[0].dtype)._nf_from(*ts)

    def cat(ts, dim=0):
        ts = list(ts)
        return Tensor(np.concatenate([t.a for t in ts], axis=dim), ts[0].dtype)._nf_from(*ts)

    def lerp(a, b, w):
        T._same_dtype(a, b, "lerp")
        return Tensor(_np(a.a + (b.a - a.a) * _elem(w, a.dtype)), a.dtype)._nf_from(a, b)

    def addcmul(x, a, b, value=1):
        return Tensor(_np(x.a + a.a * b.a * _elem(value, x.dtype)), x.dtype)._nf_from(x, a, b)

    def addcdiv(x, a, b, value=1):
        return Tensor(_np(x.a + a.a / b.a * _elem(value, x.dtype)), x.dtype)._nf_from(x, a, b)

    def full_like(t, v, dtype=None):
        return T.full(tuple(t.shape), v, dtype=dtype or t.dtype)

    def equal(a, b):
        if tuple(a.shape) != tuple(b.shape):
            return False
        return builtins.bool((a == b).all()) if a.numel() else True

    def allclose(a, b, rtol=1e-5, atol=1e-8):
        raise T.HarnessError("torch.allclose on symbolic tensors")

    def where(c, a, b):
        out = np.empty(c.a.shape, dtype=object)
        aa = np.broadcast_to(a.a if isinstance(a, Tensor) else _np(_elem(a)), c.a.shape)
        bb = np.broadcast_to(b.a if isinstance(b, Tensor) else _np(_elem(b)), c.a.shape)
        for idx in np.ndindex(*c.a.shape):
            out[idx] = aa[idx] if builtins.bool(c.a[idx]) else bb[idx]
        dt = a.dtype if isinstance(a, Tensor) else (b.dtype if isinstance(b, Tensor) else T.float32)
        return Tensor(out, dt)

    for f in (pow, neg, reciprocal, rsqrt, sum, mean, dot, outer, stack, cat, lerp, addcmul, addcdiv, full_like, equal, allclose, where):
        setattr(T, f.__name__, f)

    # --- methods
    def t_mean(s, dim=None):
        n = s.a.size if dim is None else s.a.shape[dim]
        return s.sum(dim) / n

    def t_lerp(s, end, weight):
        return lerp(s, end, weight)

    def t_reciprocal(s):
        return 1.0 / s

    def t_reciprocal_(s):
        s.a[...] = (1.0 / s).a
        return s

    def t_addcdiv_(s, a, b, value=1):
        return s._inplace(_np(s.a + a.a / b.a * _elem(value, s.dtype)), a, b)

    def t_addcmul(s, a, b, value=1):
        return addcmul(s, a, b, value)

    def t_equal(s, o):
        return equal(s, o)

    def t_expand_as(s, o):
        return Tensor(np.broadcast_to(s.a, o.a.shape), s.dtype)

    def t_mul_scalar_out(s, o):
        return s * o

    def t_sub_(s, o, alpha=1):
        return Tensor.sub_(s, o, alpha)

    Tensor.mean = t_mean
    Tensor.lerp = t_lerp
    Tensor.reciprocal = t_reciprocal
    Tensor.reciprocal_ = t_reciprocal_
    Tensor.addcdiv_ = t_addcdiv_
    Tensor.addcmul = t_addcmul
    Tensor.equal = t_equal
    Tensor.expand_as = t_expand_as
    Tensor.rsqrt = lambda s: 1.0 / s.sqrt()
    Tensor.outer = lambda s, o: outer(s, o)
    Tensor.__iadd__ = lambda s, o: s.add_(o)
    Tensor.__isub__ = lambda s, o: s.sub_(o)
    Tensor.__imul__ = lambda s, o: s.mul_(o)
    Tensor.__itruediv__ = lambda s, o: s.div_(o)
