"""Further torch API that behaviour-preserving refactorings of the repository plausibly use (kept separate from the core)."""
from __future__ import annotations

import builtins

import numpy as np


def install(T):
    Tensor = T.Tensor
    _np, _elem, _map = T._np, T._elem, T._map

    def pow(a, e):
        if isinstance(a, Tensor):
            return a.pow(e)
        return e.__rpow__(a)

    def neg(a):
        return -a

    def reciprocal(a):
        return 1.0 / a

    def rsqrt(a):
        return 1.0 / a.sqrt()

    def sum(a, dim=None):
        return a.sum(dim)

    def mean(a, dim=None):
        return a.mean(dim)

    def dot(a, b):
        return T.matmul(a, b)

    def outer(a, b):
        T._same_dtype(a, b, "outer")
        return Tensor(_np(np.multiply.outer(a.a, b.a)), a.dtype)._nf_from(a, b)

    def stack(ts, dim=0):
        ts = list(ts)
        return Tensor(np.stack([t.a for t in ts], axis=dim), ts[0].dtype)._nf_from(*ts)

    def cat(ts, dim=0):
        ts = list(ts)
        return Tensor(np.concatenate([t.a for t in ts], axis=dim), ts[0].dtype)._nf_from(*ts)

    def lerp(a, b, w):
        T._same_dtype(a, b, "lerp")
        return Tensor(_np(a.a + (b.a - a.a) * _elem(w, a.dtype)), a.dtype)._nf_from(a, b)

    def addcmul(x, a, b, value=1):
        return Tensor(_np(x.a + a.a * b.a * _elem(value, x.dtype)), x.dtype)._nf_from(x, a, b)

    def addcdiv(x, a, b, value=1):
        return Tensor(_np(x.a + a.a / b.a * _elem(value, x.dtype)), x.dtype)._nf_from(x, a, b)

    def full_like(t, v, dtype=None):
        return T.full(tuple(t.shape), v, dtype=dtype or t.dtype)

    def equal(a, b):
        if tuple(a.shape) != tuple(b.shape):
            return False
        return builtins.bool((a == b).all()) if a.numel() else True

    def isclose(a, b, rtol=1e-05, atol=1e-08, equal_nan=False):
        # |a - b| <= atol + rtol * |b| elementwise (finite entries; the literals are the exact doubles torch uses)
        bb = b if isinstance(b, Tensor) else T.tensor(b, dtype=a.dtype)
        return (a - bb).abs() <= (bb.abs() * _elem(rtol, a.dtype) + _elem(atol, a.dtype))

    def allclose(a, b, rtol=1e-05, atol=1e-08, equal_nan=False):
        return builtins.bool(isclose(a, b, rtol, atol, equal_nan).all())

    def where(c, a, b):
        out = np.empty(c.a.shape, dtype=object)
        aa = np.broadcast_to(a.a if isinstance(a, Tensor) else _np(_elem(a)), c.a.shape)
        bb = np.broadcast_to(b.a if isinstance(b, Tensor) else _np(_elem(b)), c.a.shape)
        for idx in np.ndindex(*c.a.shape):
            out[idx] = aa[idx] if builtins.bool(c.a[idx]) else bb[idx]
        dt = a.dtype if isinstance(a, Tensor) else (b.dtype if isinstance(b, Tensor) else T.float32)
        return Tensor(out, dt)

    for f in (pow, neg, reciprocal, rsqrt, sum, mean, dot, outer, stack, cat, lerp, addcmul, addcdiv, full_like, equal, isclose, allclose, where):
        setattr(T, f.__name__, f)

    # --- methods
    def t_mean(s, dim=None):
        n = s.a.size if dim is None else s.a.shape[dim]
        return s.sum(dim) / n

    def t_lerp(s, end, weight):
        return lerp(s, end, weight)

    def t_reciprocal(s):
        return 1.0 / s

    def t_reciprocal_(s):
        s.a[...] = (1.0 / s).a
        return s

    def t_addcdiv_(s, a, b, value=1):
        return s._inplace(_np(s.a + a.a / b.a * _elem(value, s.dtype)), a, b)

    def t_addcmul(s, a, b, value=1):
        return addcmul(s, a, b, value)

    def t_equal(s, o):
        return equal(s, o)

    def t_expand_as(s, o):
        return Tensor(np.broadcast_to(s.a, o.a.shape), s.dtype)

    def t_mul_scalar_out(s, o):
        return s * o

    def t_sub_(s, o, alpha=1):
        return Tensor.sub_(s, o, alpha)

    Tensor.mean = t_mean
    Tensor.lerp = t_lerp
    Tensor.reciprocal = t_reciprocal
    Tensor.reciprocal_ = t_reciprocal_
    Tensor.addcdiv_ = t_addcdiv_
    Tensor.addcmul = t_addcmul
    Tensor.equal = t_equal
    Tensor.expand_as = t_expand_as
    Tensor.rsqrt = lambda s: 1.0 / s.sqrt()
    Tensor.outer = lambda s, o: outer(s, o)
    Tensor.__iadd__ = lambda s, o: s.add_(o)
    Tensor.__isub__ = lambda s, o: s.sub_(o)
    Tensor.__imul__ = lambda s, o: s.mul_(o)
    Tensor.__itruediv__ = lambda s, o: s.div_(o)

    install2(T)


def install2(T):
    """Second batch: selection / clamping / sorting / shape utilities / further foreach ops."""
    import collections

    Tensor = T.Tensor
    _np, _elem, _map = T._np, T._elem, T._map
    HarnessError = T.HarnessError

    def _b(x):
        return builtins.bool(T._truth(x))

    def _wrap(arr, dt, *srcs):
        if not isinstance(arr, np.ndarray):
            a = np.empty((), dtype=object)
            a[()] = arr
            arr = a
        return Tensor(arr, dt)._nf_from(*srcs)

    # ---- clamp family
    def clamp(t, min=None, max=None):
        lo = None if min is None else _elem(min, t.dtype)
        hi = None if max is None else _elem(max, t.dtype)

        def f(x):
            if lo is not None:
                x = T._minmax_e(x, lo, False)
            if hi is not None:
                x = T._minmax_e(x, hi, True)
            return x

        return _wrap(_map(f, t.a), t.dtype, t)

    def clamp_(t, min=None, max=None):
        return t._inplace(clamp(t, min, max).a)

    def sign(t):
        def f(x):
            if _b(x > 0):
                return T._one(t.dtype)
            if _b(x < 0):
                return -T._one(t.dtype)
            return T._zero(t.dtype)

        return _wrap(_map(f, t.a), t.dtype, t)

    # ---- sorting / selection
    def argsort(t, dim=-1, descending=False, stable=False):
        if t.a.ndim != 1:
            raise HarnessError("argsort of a non-vector")
        vals = list(t.a.reshape(-1))
        order = []
        for i, v in enumerate(vals):
            pos = len(order)
            for j, k in enumerate(order):
                if _b((v > vals[k]) if descending else (v < vals[k])):
                    pos = j
                    break
            order.insert(pos, i)
        return T.tensor(order, dtype=T.int64)

    SortResult = collections.namedtuple("sort", ["values", "indices"])

    def sort(t, dim=-1, descending=False, stable=False):
        idx = argsort(t, dim, descending, stable)
        return SortResult(t[idx], idx)

    def argmax(t, dim=None):
        if dim is not None:
            raise HarnessError("argmax with dim")
        vals = list(t.a.flatten())
        best = 0
        for i in range(1, len(vals)):
            if _b(vals[i] > vals[best]):
                best = i
        return T.tensor(best, dtype=T.int64)

    def argmin(t, dim=None):
        if dim is not None:
            raise HarnessError("argmin with dim")
        vals = list(t.a.flatten())
        best = 0
        for i in range(1, len(vals)):
            if _b(vals[i] < vals[best]):
                best = i
        return T.tensor(best, dtype=T.int64)

    def _reduce_minmax(t, dim, want_min):
        def red(vals):
            r = vals[0]
            for v in vals[1:]:
                r = T._minmax_e(r, v, want_min)
            return r

        if dim is None:
            return _wrap(red(list(t.a.flatten())), t.dtype, t)
        moved = np.moveaxis(t.a, dim, -1)
        out = np.empty(moved.shape[:-1], dtype=object)
        for idx in np.ndindex(*moved.shape[:-1]):
            out[idx] = red(list(moved[idx]))
        return _wrap(out, t.dtype, t)

    def amax(t, dim=None):
        return _reduce_minmax(t, dim, False)

    def amin(t, dim=None):
        return _reduce_minmax(t, dim, True)

    def prod(t, dim=None):
        if dim is None:
            r = T._one(t.dtype)
            for v in t.a.flatten():
                r = r * v
            return _wrap(r, t.dtype, t)
        return _wrap(_np(np.prod(t.a, axis=dim)), t.dtype, t)

    def cumsum(t, dim=0):
        return _wrap(_np(np.cumsum(t.a, axis=dim)), t.dtype, t)

    def nonzero(t):
        idx = [list(i) for i in np.ndindex(*t.a.shape) if _b(t.a[i])]
        return T.tensor(idx if idx else np.zeros((0, t.a.ndim), dtype=int).tolist(), dtype=T.int64).reshape(len(idx), t.a.ndim)

    def flip(t, dims):
        dims = (dims,) if isinstance(dims, int) else tuple(dims)
        return _wrap(np.flip(t.a, axis=dims).copy(), t.dtype, t)

    def unbind(t, dim=0):
        return tuple(t._alias(np.take(t.a, i, axis=dim)) if False else t.select(dim, i) for i in range(t.a.shape[dim]))

    def select(t, dim, index):
        ix = [slice(None)] * t.a.ndim
        ix[dim] = index
        return t._alias(t.a[tuple(ix)])

    def chunk(t, chunks, dim=0):
        n = t.a.shape[dim]
        size = -(-n // chunks)
        return T.split(t, size, dim) if n else (t,)

    def index_select(t, dim, index):
        ii = [builtins.int(x) for x in index.a.reshape(-1)]
        return _wrap(np.take(t.a, ii, axis=dim).copy(), t.dtype, t)

    def masked_fill(t, mask, value):
        out = t.a.copy()
        m = np.broadcast_to(mask.a, t.a.shape)
        v = _elem(value, t.dtype)
        for idx in np.ndindex(*t.a.shape):
            if _b(m[idx]):
                out[idx] = v
        return _wrap(out, t.dtype, t)

    def masked_fill_(t, mask, value):
        return t._inplace(masked_fill(t, mask, value).a)

    def expand(t, *sizes):
        sizes = tuple(sizes[0]) if len(sizes) == 1 and not isinstance(sizes[0], builtins.int) else sizes
        tgt = tuple(t.a.shape[i - (len(sizes) - t.a.ndim)] if s == -1 else s for i, s in enumerate(sizes))
        if tgt == tuple(t.a.shape):
            return t._alias(t.a)
        return Tensor(np.broadcast_to(t.a, tgt), t.dtype)._nf_from(t)

    def broadcast_to(t, size):
        return expand(t, *tuple(size))

    def repeat(t, *sizes):
        sizes = tuple(sizes[0]) if len(sizes) == 1 and not isinstance(sizes[0], builtins.int) else sizes
        return _wrap(np.tile(t.a, sizes), t.dtype, t)

    def unflatten(t, dim, sizes):
        shp = list(t.a.shape)
        d = dim % len(shp)
        return t.reshape(*(shp[:d] + list(sizes) + shp[d + 1:]))

    def atleast_1d(t):
        return t if t.a.ndim >= 1 else t.reshape(1)

    def atleast_2d(t):
        return t if t.a.ndim >= 2 else t.reshape(1, -1)

    def scalar_tensor(x, dtype=None, device=None):
        return T.tensor(x, dtype=dtype or T.float32)

    def multi_dot(ts):
        r = ts[0]
        for x in ts[1:]:
            r = T.matmul(r, x)
        return r

    def mv(a, b):
        return T.matmul(a, b)

    def logical_not(t):
        return Tensor(_map(lambda x: (not _b(x)) if isinstance(x, builtins.bool) or not hasattr(x, "__invert__") else ~x, (t != 0).a if t.dtype is not T.bool else t.a), T.bool)

    def logical_and(a, b):
        return (a if a.dtype is T.bool else (a != 0)) & (b if b.dtype is T.bool else (b != 0))

    def logical_or(a, b):
        return (a if a.dtype is T.bool else (a != 0)) | (b if b.dtype is T.bool else (b != 0))

    mod_funcs = dict(clamp=clamp, clip=clamp, sign=sign, sgn=sign, argsort=argsort, sort=sort, argmax=argmax, argmin=argmin, amax=amax, amin=amin, prod=prod, cumsum=cumsum,
                     nonzero=nonzero, flip=flip, unbind=unbind, select=select, chunk=chunk, index_select=index_select, masked_fill=masked_fill, broadcast_to=broadcast_to,
                     unflatten=unflatten, atleast_1d=atleast_1d, atleast_2d=atleast_2d, scalar_tensor=scalar_tensor, mv=mv, logical_not=logical_not, logical_and=logical_and,
                     logical_or=logical_or, multiply=T.mul, subtract=T.sub, true_divide=T.div, divide=T.div, negative=T.neg, inner=T.dot, vdot=T.dot, transpose=lambda t, a, b: t.transpose(a, b),
                     permute=lambda t, dims: t.permute(*dims), reshape=lambda t, shape: t.reshape(*shape), flatten=lambda t: t.flatten(), squeeze=lambda t, d=None: t.squeeze(d),
                     unsqueeze=lambda t, d: t.unsqueeze(d), narrow=lambda t, d, s, l: t.narrow(d, s, l), t=lambda t: t.t(), all=lambda t: t.all(), any=lambda t: t.any(),
                     ge=lambda a, b: a >= b, le=lambda a, b: a <= b, gt=lambda a, b: a > b, lt=lambda a, b: a < b, eq=lambda a, b: a == b, ne=lambda a, b: a != b,
                     is_floating_point=lambda t: t.dtype.cat == 2)
    for k, f in mod_funcs.items():
        setattr(T, k, f)
    T.linalg.multi_dot = multi_dot

    meth = dict(diag=lambda s, diagonal=0: T.diag(s), allclose=lambda s, o, rtol=1e-05, atol=1e-08, equal_nan=False: T.allclose(s, o, rtol, atol, equal_nan),
                isclose=lambda s, o, rtol=1e-05, atol=1e-08, equal_nan=False: T.isclose(s, o, rtol, atol, equal_nan), clamp=clamp, clip=clamp, clamp_=clamp_, clip_=clamp_,
                clamp_min=lambda s, m: clamp(s, min=m), clamp_max=lambda s, m: clamp(s, max=m), clamp_min_=lambda s, m: clamp_(s, min=m), clamp_max_=lambda s, m: clamp_(s, max=m),
                sign=sign, sgn=sign, argsort=argsort, sort=sort, argmax=argmax, argmin=argmin, amax=amax, amin=amin, prod=prod, cumsum=cumsum, nonzero=nonzero, flip=flip,
                unbind=unbind, select=select, chunk=chunk, index_select=index_select, masked_fill=masked_fill, masked_fill_=masked_fill_, expand=expand, broadcast_to=broadcast_to,
                repeat=repeat, unflatten=unflatten, view_as=lambda s, o: s.view(*o.shape), reshape_as=lambda s, o: s.reshape(*o.shape), type_as=lambda s, o: s.to(dtype=o.dtype),
                new_ones=lambda s, *size, dtype=None: T.ones(*size, dtype=dtype or s.dtype), new_full=lambda s, size, v, dtype=None: T.full(size, v, dtype=dtype or s.dtype),
                new_empty=lambda s, *size, dtype=None: T.zeros(*size, dtype=dtype or s.dtype), new_tensor=lambda s, data, dtype=None: T.tensor(data, dtype=dtype or s.dtype),
                mv=mv, ge=lambda a, b: a >= b, le=lambda a, b: a <= b, gt=lambda a, b: a > b, lt=lambda a, b: a < b, eq=lambda a, b: a == b, ne=lambda a, b: a != b,
                logical_not=logical_not, logical_and=logical_and, logical_or=logical_or, is_floating_point=lambda s: s.dtype.cat == 2, is_complex=lambda s: False,
                abs_=lambda s: s._inplace(s.abs().a), square_=lambda s: s._inplace(s.square().a), addcdiv=lambda s, a, b, value=1: T.addcdiv(s, a, b, value), addmm=lambda s, a, b, beta=1, alpha=1: T.addmm(s, a, b, beta=beta, alpha=alpha),
                multiply=lambda s, o: s * o, true_divide=lambda s, o: s / o, divide=lambda s, o: s / o, subtract=lambda s, o, alpha=1: s.sub(o, alpha=alpha), negative=lambda s: -s,
                bool=lambda s: s.to(dtype=T.bool) if s.dtype is not T.bool else s, int=lambda s: s.to(dtype=T.int32), inner=lambda s, o: T.dot(s, o), get_device=lambda s: -1)
    for k, f in meth.items():
        if not hasattr(Tensor, k) or k in ("argsort",):
            setattr(Tensor, k, f)
    Tensor.mT = property(lambda s: s.transpose(-2, -1))
    Tensor.mH = property(lambda s: s.transpose(-2, -1))
    Tensor.H = property(lambda s: s.transpose(-2, -1))
    T.argsort = argsort

    # ---- index-driven writes / reads (indices are concrete integers or SymInts decided by the solver)
    def _ints(index):
        return [builtins.int(x) for x in index.a.reshape(-1)]

    def index_copy_(t, dim, index, src):
        ii = _ints(index)
        if len(ii) != src.a.shape[dim]:
            raise RuntimeError("index_copy_(): Number of indices should be equal to source.size(dim)")
        T._same_dtype(t, src, "index_copy_")
        for k, i in enumerate(ii):
            ix_t = [slice(None)] * t.a.ndim
            ix_s = [slice(None)] * src.a.ndim
            ix_t[dim], ix_s[dim] = i, k
            t.a[tuple(ix_t)] = src.a[tuple(ix_s)]
        return t._nf_from(t, src)

    def index_copy(t, dim, index, src):
        return index_copy_(t.clone(), dim, index, src)

    def index_add_(t, dim, index, src, alpha=1):
        ii = _ints(index)
        al = _elem(alpha, t.dtype)
        for k, i in enumerate(ii):
            ix_t = [slice(None)] * t.a.ndim
            ix_s = [slice(None)] * src.a.ndim
            ix_t[dim], ix_s[dim] = i, k
            t.a[tuple(ix_t)] = _np(t.a[tuple(ix_t)] + src.a[tuple(ix_s)] * al)
        return t._nf_from(t, src)

    def index_fill_(t, dim, index, value):
        v = _elem(value, t.dtype)
        for i in _ints(index):
            ix = [slice(None)] * t.a.ndim
            ix[dim] = i
            sub = t.a[tuple(ix)]
            if isinstance(sub, np.ndarray):
                sub[...] = T._full(sub.shape, v)
            else:
                t.a[tuple(ix)] = v
        return t

    def gather(t, dim, index):
        out = np.empty(index.a.shape, dtype=object)
        for idx in np.ndindex(*index.a.shape):
            src = list(idx)
            src[dim] = builtins.int(index.a[idx])
            out[idx] = t.a[tuple(src)]
        return _wrap(out, t.dtype, t)

    def scatter_(t, dim, index, src):
        for idx in np.ndindex(*index.a.shape):
            dst = list(idx)
            dst[dim] = builtins.int(index.a[idx])
            t.a[tuple(dst)] = src.a[idx] if isinstance(src, Tensor) else _elem(src, t.dtype)
        return t

    def take_along_dim(t, index, dim):
        return gather(t, dim, index)

    for k_, f_ in dict(index_copy_=index_copy_, index_copy=index_copy, index_add_=index_add_, index_add=lambda t, d, i, s_, alpha=1: index_add_(t.clone(), d, i, s_, alpha),
                       index_fill_=index_fill_, index_fill=lambda t, d, i, v: index_fill_(t.clone(), d, i, v), gather=gather, scatter_=scatter_,
                       scatter=lambda t, d, i, s_: scatter_(t.clone(), d, i, s_), take_along_dim=take_along_dim).items():
        setattr(Tensor, k_, f_)
    for k_ in ("index_copy", "index_add", "index_fill", "gather", "scatter", "take_along_dim"):
        setattr(T, k_, getattr(Tensor, k_))

    # ---- `out=` arguments: the result is written into the given tensor(s) (same storage afterwards), as torch does
    def _write_out(out, res):
        if tuple(out.a.shape) != tuple(res.a.shape):
            if out.a.size == 0 or out.a.ndim == res.a.ndim:
                out.a = np.empty(res.a.shape, dtype=object)  # torch resizes an out tensor of the wrong size
            else:
                raise RuntimeError("out tensor has the wrong shape")
        out.a[...] = T._cast_elems(res.a, res.dtype, out.dtype) if res.dtype is not out.dtype else res.a
        return out._nf_from(res)

    def _with_out(f):
        def g(*a, out=None, **k):
            r = f(*a, **k)
            if out is None:
                return r
            if isinstance(r, tuple):
                outs = tuple(_write_out(o, x) for o, x in zip(out, r))
                return type(r)(*outs) if hasattr(r, "_fields") else outs
            return _write_out(out, r)

        g.__name__ = getattr(f, "__name__", "f")
        return g

    for name in ("add", "sub", "mul", "div", "matmul", "mm", "neg", "abs", "sqrt", "square", "pow", "clamp", "maximum", "minimum", "outer", "addmm", "cat", "stack", "where", "lerp",
                 "addcmul", "addcdiv", "reciprocal", "rsqrt", "diag", "triu", "tril", "einsum", "tensordot", "index_select", "gather", "sum", "mean", "prod", "amax", "amin", "norm"):
        if hasattr(T, name):
            setattr(T, name, _with_out(getattr(T, name)))
    L = T.linalg
    for name in ("vector_norm", "norm", "matrix_norm", "qr", "eigh", "matrix_power", "multi_dot"):
        if hasattr(L, name):
            setattr(type(L), name, staticmethod(_with_out(getattr(L, name)))) if name in type(L).__dict__ else setattr(L, name, _with_out(getattr(L, name)))

    def promote_types(a, b):
        return T._promote_types(a, b)

    def result_type(a, b):
        da = a.dtype if isinstance(a, Tensor) else T._infer_dtype(a)
        db = b.dtype if isinstance(b, Tensor) else T._infer_dtype(b)
        return T._result_dtype(a if isinstance(a, Tensor) else T.tensor(a), b if isinstance(b, Tensor) else T.tensor(b)) if (isinstance(a, Tensor) or isinstance(b, Tensor)) else T._promote_types(da, db)

    def can_cast(frm, to):
        return frm.cat < to.cat or (frm.cat == to.cat and (frm.cat != 2 or True))

    T.promote_types, T.result_type, T.can_cast = promote_types, result_type, can_cast
    Tensor.narrow_copy = lambda s_, dim, start, length: s_.narrow(dim, start, length).clone()
    T.narrow_copy = lambda t, dim, start, length: t.narrow(dim, start, length).clone()

    # ---- as_strided: a view of the underlying storage with explicit sizes / strides (in elements) and an ABSOLUTE storage offset
    def as_strided(t, size, stride, storage_offset=None):
        base = T._base_of(t.a)
        flat = base.reshape(-1) if base.flags["C_CONTIGUOUS"] else None
        if flat is None:
            raise HarnessError("as_strided on a non-contiguous storage")
        off = t.storage_offset() if storage_offset is None else builtins.int(storage_offset)
        item = flat.strides[0]
        v = np.lib.stride_tricks.as_strided(flat[off:], shape=tuple(builtins.int(x) for x in size), strides=tuple(builtins.int(x) * item for x in stride), writeable=True)
        return t._alias(v)

    Tensor.as_strided = as_strided
    T.as_strided = as_strided

    # ---- axis shuffles (views, as in torch)
    def movedim(t, source, destination):
        return t._alias(np.moveaxis(t.a, source, destination))

    def swapaxes(t, a0, a1):
        return t._alias(np.swapaxes(t.a, a0, a1))

    def flatten_range(t, start_dim=0, end_dim=-1):
        nd = t.a.ndim
        if nd == 0:
            return t.reshape(1)
        sd, ed = start_dim % nd, end_dim % nd
        shp = list(t.a.shape)
        return t.reshape(*(shp[:sd] + [builtins.int(np.prod(shp[sd:ed + 1]))] + shp[ed + 1:]))

    for k_, f_ in dict(movedim=movedim, moveaxis=movedim, swapaxes=swapaxes, swapdims=swapaxes).items():
        setattr(Tensor, k_, f_)
        setattr(T, k_, f_)
    Tensor.flatten = flatten_range
    T.flatten = flatten_range
    Tensor.ravel = lambda s_: flatten_range(s_)
    T.ravel = lambda t: flatten_range(t)
    Tensor.nelement = lambda s_: s_.numel()

    # ---- further foreach ops (out-of-place results are new tensors; in-place variants write through)
    def _lst(x, i):
        return x[i] if isinstance(x, (list, tuple)) else x

    def _chk(xs):
        if len(xs) == 0:
            raise RuntimeError("Tensor list must have at least one tensor.")

    def fe(name, f, inplace):
        def g(xs, *args, **kw):
            _chk(xs)
            outs = [f(x, *[_lst(a, i) for a in args], **kw) for i, x in enumerate(xs)]
            if inplace:
                for x, o in zip(xs, outs):
                    x._inplace(o.a, o)
                return None
            return outs

        g.__name__ = name
        setattr(T, name, g)

    fe("_foreach_sub", lambda x, y, alpha=1: x.sub(y, alpha=alpha) if isinstance(y, Tensor) else x - y, False)
    fe("_foreach_neg", lambda x: -x, False)
    fe("_foreach_abs", lambda x: x.abs(), False)
    fe("_foreach_abs_", lambda x: x.abs(), True)
    fe("_foreach_reciprocal", lambda x: 1.0 / x, False)
    fe("_foreach_reciprocal_", lambda x: 1.0 / x, True)
    fe("_foreach_pow", lambda x, e: x.pow(e), False)
    fe("_foreach_pow_", lambda x, e: x.pow(e), True)
    fe("_foreach_addcmul", lambda x, a, b, value=1: T.addcmul(x, a, b, value), False)
    fe("_foreach_addcdiv", lambda x, a, b, value=1: T.addcdiv(x, a, b, value), False)
    fe("_foreach_maximum", lambda x, y: T.maximum(x, y if isinstance(y, Tensor) else T.tensor(y, dtype=x.dtype)), False)
    fe("_foreach_maximum_", lambda x, y: T.maximum(x, y if isinstance(y, Tensor) else T.tensor(y, dtype=x.dtype)), True)
    fe("_foreach_minimum", lambda x, y: T.minimum(x, y if isinstance(y, Tensor) else T.tensor(y, dtype=x.dtype)), False)
    fe("_foreach_clamp_min", lambda x, y: clamp(x, min=y), False)
    fe("_foreach_clamp_min_", lambda x, y: clamp(x, min=y), True)
    fe("_foreach_clamp_max", lambda x, y: clamp(x, max=y), False)
    fe("_foreach_clamp_max_", lambda x, y: clamp(x, max=y), True)
    fe("_foreach_square", lambda x: x.square(), False) if hasattr(Tensor, "square") else None
