"""Deterministic lock-step simulator of torch.distributed for symtorch (DESIGN 1.2 / C06).

R simulated ranks run the same Python function as threads that pass one baton: exactly one
thread runs at any time, a rank runs until its next collective, then the next runnable rank (in
rank order) continues.  Collectives are rendezvous points keyed by (communicator, sequence
number); a rank that can never be matched is reported as `Deadlock`.  Every process-group
creation and collective call is logged per rank, which is what the SPMD-contract assertions of
C06 inspect.
"""
from __future__ import annotations

import enum
import sys
import threading
import types
from collections import defaultdict

import numpy as np


class Deadlock(Exception):
    pass


class _Abort(BaseException):
    pass


class Sim:
    cur = None

    def __init__(self, world):
        self.world = world
        self.rank = None
        self.sem = [threading.Semaphore(0) for _ in range(world)]
        self.done = [False] * world
        self.waiting = [None] * world
        self.slots = {}
        self.seq = [defaultdict(int) for _ in range(world)]
        self.log = [[] for _ in range(world)]
        self.results = [None] * world
        self.errors = [None] * world
        self.main = threading.Semaphore(0)
        self.dead = False
        self.percache = [dict() for _ in range(world)]
        self.groups = {}

    # -- scheduling
    def _runnable(self, r):
        if self.done[r]:
            return False
        w = self.waiting[r]
        return w is None or len(self.slots[w][0]) == len(self.slots[w][1])

    def _next(self, after):
        for d in range(1, self.world + 1):
            r = (after + d) % self.world
            if self._runnable(r):
                return r
        return None

    def _kill(self, why):
        self.dead = True
        for r in range(self.world):
            if not self.done[r] and self.errors[r] is None and self.waiting[r] is not None:
                self.errors[r] = Deadlock(f"rank {r} left waiting at {self._fmt(self.waiting[r])}; {why}")

    def _fmt(self, key):
        gid, n = key
        return f"{self.slots[key][2]} #{n} on ranks {list(gid)}"

    def _switch(self):
        me = self.rank
        nxt = self._next(me)
        if nxt is None:
            self._kill(f"finished ranks: {[r for r in range(self.world) if self.done[r]]}")
            raise _Abort()
        if nxt != me:
            self.rank = nxt
            self.sem[nxt].release()
            self.sem[me].acquire()
            if self.dead:
                raise _Abort()
            self.rank = me

    def collective(self, kind, group_ranks, payload):
        me = self.rank
        gid = tuple(group_ranks)
        if me not in gid:
            raise RuntimeError(f"rank {me} called {kind} on a group it is not a member of: {gid}")
        key = (gid, self.seq[me][gid])
        self.seq[me][gid] += 1
        self.log[me].append((kind, gid))
        slot = self.slots.setdefault(key, ({}, gid, kind))
        if slot[2] != kind:
            raise Deadlock(f"collective mismatch on ranks {list(gid)} at #{key[1]}: {slot[2]} vs {kind}")
        slot[0][me] = payload
        self.waiting[me] = key
        while len(slot[0]) < len(gid):
            self._switch()
        self.waiting[me] = None
        return slot[0]

    def run(self, fn):
        def body(r):
            self.sem[r].acquire()
            try:
                if not self.dead:
                    self.results[r] = fn(r)
            except _Abort:
                pass
            except BaseException as e:  # includes the explorer's control exceptions
                self.errors[r] = e
                if not isinstance(e, Exception):
                    self.dead = True
            self.done[r] = True
            if self.dead:
                self._release_all(r)
                return
            nxt = self._next(r) if not all(self.done) else None
            if all(self.done):
                self.main.release()
            elif nxt is None:
                self._kill(f"rank {r} finished without joining")
                self._release_all(r)
            else:
                self.rank = nxt
                self.sem[nxt].release()

        ths = [threading.Thread(target=body, args=(r,), daemon=True) for r in range(self.world)]
        prev = Sim.cur
        Sim.cur = self
        for t in ths:
            t.start()
        self.rank = 0
        self.sem[0].release()
        self.main.acquire()
        for t in ths:
            t.join(timeout=10)
        Sim.cur = prev
        return self.results, self.errors

    def _release_all(self, me):
        pending = [r for r in range(self.world) if not self.done[r] and r != me]
        if not pending:
            self.main.release()
            return
        # wake the others one at a time; each aborts at its switch point and chains on
        nxt = pending[0]
        self.rank = nxt
        self.sem[nxt].release()


def cur():
    if Sim.cur is None:
        raise RuntimeError("Default process group has not been initialized, please make sure to call init_process_group.")
    return Sim.cur


class ProcessGroup:
    def __init__(self, ranks, name=""):
        self.ranks = tuple(int(r) for r in ranks)
        self.group_name = name

    def size(self):
        return len(self.ranks)

    def rank(self):
        return self.ranks.index(cur().rank)

    def __repr__(self):
        return f"ProcessGroup{self.ranks}"


class _GroupMember:
    @property
    def WORLD(self):
        s = cur()
        return ProcessGroup(range(s.world), "world")

    NON_GROUP_MEMBER = object()


def install(torch):
    import builtins

    _int = builtins.int

    def _mk(name):
        m = types.ModuleType(name)
        sys.modules[name] = m
        return m

    dist = _mk("torch.distributed")
    torch.distributed = dist
    dist.Sim = Sim
    dist.Deadlock = Deadlock
    dist.ProcessGroup = ProcessGroup
    c10d = _mk("torch.distributed.distributed_c10d")
    dist.distributed_c10d = c10d
    c10d.GroupMember = _GroupMember()
    dist.GroupMember = c10d.GroupMember

    def is_initialized():
        return Sim.cur is not None

    def is_available():
        return True

    def get_rank(group=None):
        s = cur()
        if group is None:
            return s.rank
        if s.rank not in group.ranks:
            return -1
        return group.ranks.index(s.rank)

    def get_world_size(group=None):
        s = cur()
        return s.world if group is None else len(group.ranks)

    def get_process_group_ranks(group):
        return list(group.ranks) if group is not None else list(range(cur().world))

    def new_group(ranks=None, **kw):
        s = cur()
        ranks = tuple(range(s.world)) if ranks is None else tuple(_int(r) for r in ranks)
        s.log[s.rank].append(("new_group", ranks))
        return ProcessGroup(ranks) if s.rank in ranks else c10d.GroupMember.NON_GROUP_MEMBER

    def new_subgroups(group_size=None, group=None, **kw):
        s = cur()
        if group_size is None or group_size <= 0 or s.world % group_size:
            raise ValueError(f"The world size ({s.world}) must be divisible by 'group_size={group_size}'")
        s.log[s.rank].append(("new_subgroups", group_size))
        groups = []
        for i in range(0, s.world, group_size):
            ranks = tuple(range(i, i + group_size))
            s.log[s.rank].append(("new_group", ranks))
            groups.append(ProcessGroup(ranks))
        mine = [g for g in groups if s.rank in g.ranks][0]
        return mine, groups

    def all_gather_into_tensor(output_tensor, input_tensor, group=None, async_op=False):
        s = cur()
        g = group if group is not None else c10d.GroupMember.WORLD
        n = len(g.ranks)
        L = input_tensor.a.shape[0]
        if output_tensor.a.shape[0] != n * L:
            raise RuntimeError(f"all_gather_into_tensor: output size {output_tensor.a.shape[0]} != {n} * {L}")
        if output_tensor.dtype is not input_tensor.dtype:
            raise RuntimeError("all_gather_into_tensor: dtype mismatch")
        parts = s.collective("all_gather", g.ranks, input_tensor.a.copy())
        for i, r in enumerate(g.ranks):
            if parts[r].shape[0] != L:
                raise RuntimeError("all_gather_into_tensor: ranks passed inputs of different sizes")
            output_tensor.a[i * L:(i + 1) * L] = parts[r]

    def barrier(group=None):
        s = cur()
        g = group if group is not None else c10d.GroupMember.WORLD
        s.collective("barrier", g.ranks, None)

    def all_reduce(t, op=None, group=None):
        s = cur()
        g = group if group is not None else c10d.GroupMember.WORLD
        parts = s.collective("all_reduce", g.ranks, t.a.copy())
        acc = None
        for r in g.ranks:
            acc = parts[r] if acc is None else acc + parts[r]
        t.a[...] = acc

    for f in (is_initialized, is_available, get_rank, get_world_size, get_process_group_ranks, new_group, new_subgroups,
              all_gather_into_tensor, barrier, all_reduce):
        setattr(dist, f.__name__, f)
        setattr(c10d, f.__name__, f)

    # ---------------------------------------------------------------- device mesh
    dm = _mk("torch.distributed.device_mesh")
    dist.device_mesh = dm

    class DeviceMesh:
        def __init__(self, device_type, mesh, *, mesh_dim_names=None, _init_backend=True, _parent=None):
            s = cur()
            self.device_type = device_type
            arr = mesh.a if isinstance(mesh, torch.Tensor) else np.array(mesh, dtype=object)
            self.mesh = torch.tensor(np.array(arr.tolist(), dtype=object), dtype=torch.int)
            self.mesh_dim_names = tuple(mesh_dim_names) if mesh_dim_names is not None else None
            self._flat = tuple(_int(x) for x in self.mesh.a.reshape(-1))
            self._parent = _parent
            s.log[s.rank].append(("DeviceMesh", tuple(map(tuple, self.mesh.a.tolist())) if self.mesh.a.ndim > 1 else self._flat))
            self._dim_groups = []
            if _init_backend and _parent is None:
                m = np.array(self.mesh.a.tolist(), dtype=object)
                if m.ndim == 1 and m.size == s.world:
                    self._dim_groups.append(ProcessGroup(range(s.world), "world"))
                else:
                    for d in range(m.ndim):
                        by = np.swapaxes(m, -1, d).reshape(-1, m.shape[d])
                        for row in by:
                            ranks = tuple(_int(x) for x in row)
                            g = new_group(ranks)
                            if s.rank in ranks:
                                self._dim_groups.append(g)

        @property
        def ndim(self):
            return self.mesh.a.ndim

        @property
        def shape(self):
            return tuple(self.mesh.a.shape)

        def size(self, mesh_dim=None):
            return self.mesh.a.size if mesh_dim is None else self.mesh.a.shape[mesh_dim]

        def _dim(self, d):
            if isinstance(d, str):
                return self.mesh_dim_names.index(d)
            return 0 if d is None else d

        def get_rank(self):
            return cur().rank

        def get_coordinate(self):
            r = cur().rank
            m = np.array(self.mesh.a.tolist())
            pos = np.argwhere(m == r)
            return None if len(pos) == 0 else [int(x) for x in pos[0]]

        def get_local_rank(self, mesh_dim=None):
            c = self.get_coordinate()
            if c is None:
                raise RuntimeError("rank not in mesh")
            return c[self._dim(mesh_dim)]

        def get_group(self, mesh_dim=None):
            d = self._dim(mesh_dim)
            if self._parent is not None:
                return self._parent[0].get_group(self._parent[1])
            c = self.get_coordinate()
            m = np.array(self.mesh.a.tolist())
            idx = list(c)
            idx[d] = slice(None)
            return ProcessGroup([_int(x) for x in m[tuple(idx)]])

        def __getitem__(self, name):
            d = self._dim(name)
            c = self.get_coordinate()
            m = np.array(self.mesh.a.tolist(), dtype=object)
            idx = list(c)
            idx[d] = slice(None)
            return DeviceMesh(self.device_type, m[tuple(idx)].tolist(), mesh_dim_names=(self.mesh_dim_names[d],) if self.mesh_dim_names else None,
                              _init_backend=False, _parent=(self, d))

        def __hash__(self):
            return hash((self.device_type, self._flat, self.shape))

        def __eq__(self, o):
            return isinstance(o, DeviceMesh) and (self.device_type, self._flat, self.shape) == (o.device_type, o._flat, o.shape)

        def __repr__(self):
            return f"DeviceMesh({self.mesh.a.tolist()})"

    class _MeshResources:
        @staticmethod
        def _get_all_submeshes(device_mesh, mesh_dim_name):
            d = device_mesh._dim(mesh_dim_name)
            m = np.array(device_mesh.mesh.a.tolist(), dtype=object)
            by = np.swapaxes(m, -1, d).reshape(-1, m.shape[d])
            return [DeviceMesh(device_mesh.device_type, [_int(x) for x in row], mesh_dim_names=(mesh_dim_name,), _init_backend=False,
                               _parent=(device_mesh, d)) for row in by]

    dm.DeviceMesh = DeviceMesh
    dm._mesh_resources = _MeshResources()

    def init_device_mesh(device_type, mesh_shape, mesh_dim_names=None):
        s = cur()
        m = np.arange(s.world).reshape(mesh_shape)
        return DeviceMesh(device_type, m.tolist(), mesh_dim_names=mesh_dim_names)

    dm.init_device_mesh = init_device_mesh

    # ---------------------------------------------------------------- DTensor
    dt = _mk("torch.distributed.tensor")
    dist.tensor = dt
    dist._tensor = dt
    sys.modules["torch.distributed._tensor"] = dt

    class Replicate:
        def __repr__(self):
            return "Replicate()"

        def __eq__(self, o):
            return isinstance(o, Replicate)

        __hash__ = object.__hash__

    class Shard:
        def __init__(self, dim=0):
            self.dim = dim

        def __repr__(self):
            return f"Shard({self.dim})"

    class DTensor(torch.Tensor):
        """Local view model: `.a` is the *global* logical content only for metadata; use to_local()."""

        def __init__(self, local, device_mesh, placements, global_shape=None):
            torch.Tensor.__init__(self, local.a, local.dtype)
            self._local = local
            self.device_mesh = device_mesh
            self.placements = tuple(placements)
            self._global_shape = tuple(global_shape) if global_shape is not None else tuple(local.a.shape)

        def to_local(self):
            return self._local

        @property
        def shape(self):
            return torch.Size(self._global_shape)

        def size(self, d=None):
            return torch.Size(self._global_shape) if d is None else self._global_shape[d]

        def detach(self):
            t = DTensor(self._local.detach(), self.device_mesh, self.placements, self._global_shape)
            return t

        def copy_(self, o, non_blocking=False):
            self._local.copy_(o.to_local() if isinstance(o, DTensor) else o)
            return self

        def __deepcopy__(self, memo):
            import copy

            t = DTensor(copy.deepcopy(self._local, memo), self.device_mesh, self.placements, self._global_shape)
            memo[id(self)] = t
            return t

        def __repr__(self):
            return f"DTensor(local_shape={tuple(self._local.a.shape)}, mesh={self.device_mesh}, placements={self.placements})"

    def dt_zeros(*size, dtype=None, device_mesh=None, placements=None, **kw):
        s = cur()
        if len(size) == 1 and not isinstance(size[0], _int):
            size = tuple(size[0])
        if device_mesh is None:
            raise HarnessErrorProxy("dtensor.zeros without a device mesh")
        member = s.rank in device_mesh._flat
        local = torch.zeros(tuple(size), dtype=dtype or torch.float32) if member else torch.zeros((0,), dtype=dtype or torch.float32)
        return DTensor(local, device_mesh, placements or [Replicate()], tuple(size))

    class HarnessErrorProxy(Exception):
        pass

    dt.DTensor = DTensor
    dt.zeros = dt_zeros
    dt.Replicate = Replicate
    dt.Shard = Shard
    dt.DeviceMesh = DeviceMesh
    dt.init_device_mesh = init_device_mesh

    # ---------------------------------------------------------------- FSDP names
    fsdp = _mk("torch.distributed.fsdp")
    dist.fsdp = fsdp

    class ShardingStrategy(enum.Enum):
        FULL_SHARD = enum.auto()
        SHARD_GRAD_OP = enum.auto()
        NO_SHARD = enum.auto()
        HYBRID_SHARD = enum.auto()
        _HYBRID_SHARD_ZERO2 = enum.auto()

    class FullyShardedDataParallel:
        pass

    fsdp.ShardingStrategy = ShardingStrategy
    fsdp.FullyShardedDataParallel = FullyShardedDataParallel
    iu = _mk("torch.distributed.fsdp._init_utils")
    fsdp._init_utils = iu
    iu.HYBRID_SHARDING_STRATEGIES = [ShardingStrategy.HYBRID_SHARD, ShardingStrategy._HYBRID_SHARD_ZERO2]
    ckpt = _mk("torch.distributed.checkpoint")
    dist.checkpoint = ckpt
