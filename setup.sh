#!/bin/sh
# Build the overlay venv used by every check (offline, from the local wheelhouse).
set -e
cd "$(dirname "$0")"
exec ./vcheck --setup
