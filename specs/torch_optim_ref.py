"""Reference models of torch.optim.{SGD, Adagrad, RMSprop, Adam, AdamW} (single tensor, out of place).

Written from the pseudo-code in the PyTorch documentation of each optimizer; validated against the
real torch.optim classes on concrete float64 inputs by `validate_against_torch()` (translator
validation), which the C02 check runs in a real-torch subprocess on every run.
Elements may be symbolic (vlib.symx) or floats.
"""
from __future__ import annotations

import numpy as np

from vlib import symx


def _sqrt(a):
    if not isinstance(a, np.ndarray):
        return symx.sqrt(a)
    out = np.empty(a.shape, dtype=object)
    for idx in np.ndindex(*a.shape):
        out[idx] = symx.sqrt(a[idx])
    if a.ndim == 0:
        out[()] = symx.sqrt(a[()])
    return out


def _pw(b, k):
    return b**k if isinstance(k, int) else symx.powk(b, k)


class State:
    def __init__(self, shape, zero):
        def z():
            a = np.empty(shape, dtype=object)
            a.fill(zero) if a.size else None
            if a.ndim == 0:
                a[()] = zero
            return a

        self.buf = None  # SGD momentum buffer (None until first use)
        self.sum = z()  # Adagrad state_sum / RMSprop square_avg / Adam exp_avg_sq
        self.m = z()  # Adam exp_avg
        self.t = 0  # per-parameter step count


def sgd(p, g, st, lr, momentum, weight_decay, nesterov, momentum_nonzero):
    if weight_decay is not None:
        g = g + p * weight_decay
    if momentum_nonzero:
        if st.buf is None:
            st.buf = g
        else:
            st.buf = st.buf * momentum + g  # dampening = 0
        g = g + st.buf * momentum if nesterov else st.buf
    return p - g * lr


def adagrad(p, g, st, lr, eps, weight_decay):
    st.t += 1
    if weight_decay is not None:
        g = g + p * weight_decay
    st.sum = st.sum + g * g  # lr_decay = 0, initial_accumulator_value = 0
    return p - g / (_sqrt(st.sum) + eps) * lr


def rmsprop(p, g, st, lr, alpha, eps, weight_decay):
    if weight_decay is not None:
        g = g + p * weight_decay
    st.sum = st.sum * alpha + g * g * (1 - alpha)
    return p - g / (_sqrt(st.sum) + eps) * lr  # momentum = 0, centered = False


def adam(p, g, st, lr, b1, b2, eps, weight_decay, decoupled):
    st.t += 1
    if decoupled:
        if weight_decay is not None:
            p = p * (1 - lr * weight_decay)
    elif weight_decay is not None:
        g = g + p * weight_decay
    st.m = st.m * b1 + g * (1 - b1)
    st.sum = st.sum * b2 + g * g * (1 - b2)
    bc1 = 1 - _pw(b1, st.t)
    bc2 = 1 - _pw(b2, st.t)
    denom = _sqrt(st.sum / bc2) + eps
    return p - (st.m / bc1) / denom * lr


def validate_against_torch(n_cases=40, seed=0):
    """Run on the REAL torch: the models above vs torch.optim on random float64 problems; returns (cases, max_abs_error)."""
    import random

    import torch

    rng = random.Random(seed)
    worst, cases = 0.0, 0
    symx.CTX.mode = "concrete"
    for case in range(n_cases):
        shape = rng.choice([(3,), (2, 3), (2, 2, 2), ()])
        T = rng.randint(2, 5)
        lr = rng.choice([0.125, 0.01, 1.0])
        wd = rng.choice([None, 0.25, 0.01])
        eps = rng.choice([1e-8, 0.5])
        b1, b2 = rng.choice([0.5, 0.9]), rng.choice([0.75, 0.999])
        mom = rng.choice([0.0, 0.5, 0.9])
        nes = rng.choice([False, True]) and mom != 0.0
        p0 = np.array([rng.uniform(-2, 2) for _ in range(int(np.prod(shape)))]).reshape(shape)
        grads = [np.array([rng.uniform(-2, 2) for _ in range(int(np.prod(shape)))]).reshape(shape) for _ in range(T)]
        absent = rng.random() < 0.3
        for kind in ("sgd", "adagrad", "rmsprop", "adam", "adamw"):
            tp = torch.nn.Parameter(torch.tensor(p0, dtype=torch.float64))
            wdt = 0.0 if wd is None else wd
            if kind == "sgd":
                o = torch.optim.SGD([tp], lr=lr, momentum=mom, weight_decay=wdt, nesterov=nes)
            elif kind == "adagrad":
                o = torch.optim.Adagrad([tp], lr=lr, eps=eps, weight_decay=wdt)
            elif kind == "rmsprop":
                o = torch.optim.RMSprop([tp], lr=lr, alpha=b2, eps=eps, weight_decay=wdt)
            elif kind == "adam":
                o = torch.optim.Adam([tp], lr=lr, betas=(b1, b2), eps=eps, weight_decay=wdt)
            else:
                o = torch.optim.AdamW([tp], lr=lr, betas=(b1, b2), eps=eps, weight_decay=wdt)
            st = State(shape, 0.0)
            p = p0.astype(object)
            for k, g in enumerate(grads):
                if absent and k == 1 and kind in ("sgd", "adagrad", "rmsprop"):
                    tp.grad = None
                    o.step()
                    continue
                tp.grad = torch.tensor(g, dtype=torch.float64)
                o.step()
                go = g.astype(object)
                if kind == "sgd":
                    p = sgd(p, go, st, lr, mom, wd, nes, mom != 0.0)
                elif kind == "adagrad":
                    p = adagrad(p, go, st, lr, eps, wd)
                elif kind == "rmsprop":
                    p = rmsprop(p, go, st, lr, b2, eps, wd)
                elif kind == "adam":
                    p = adam(p, go, st, lr, b1, b2, eps, wd, False)
                else:
                    p = adam(p, go, st, lr, b1, b2, eps, wd, True)
                err = float(np.max(np.abs(np.array(p, dtype=float) - tp.detach().numpy()))) if np.size(p) else 0.0
                worst = max(worst, err)
            cases += 1
    symx.CTX.mode = "symbolic"
    return cases, worst


if __name__ == "__main__":
    import json
    import sys

    c, w = validate_against_torch(int(sys.argv[1]) if len(sys.argv) > 1 else 40, int(sys.argv[2]) if len(sys.argv) > 2 else 0)
    print(json.dumps(dict(cases=c, max_abs_error=w)))
    sys.exit(0 if w < 1e-9 else 1)
