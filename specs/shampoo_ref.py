"""Reference model of one Distributed Shampoo step for ONE block -- the documented algorithm.

Written from the class docstring of DistributedShampoo, distributed_shampoo/README.md and the
statement of properties C01-C03; out of place, per block, loop-free apart from the mode loop.
Elements are whatever the caller passes (symbolic reals of vlib.symx or Python floats): the same
code is the oracle of the symbolic run and of the replay on the real torch build.

Nothing in here is derived from the implementation: refresh schedule, root selection, blocking
and the update formula are the documented ones.
"""
from __future__ import annotations

import itertools
from fractions import Fraction

import numpy as np

from vlib import symx


# ------------------------------------------------------------------------------------------ helpers
def zeros(shape, like_zero=0.0):
    a = np.empty(shape, dtype=object)
    a.fill(like_zero) if a.size or a.ndim == 0 else None
    if a.ndim == 0:
        a[()] = like_zero
    return a


def _arr(a):
    if isinstance(a, np.ndarray):
        return a
    r = np.empty((), dtype=object)
    r[()] = a
    return r


def amap(f, a):
    a = _arr(a)
    out = np.empty(a.shape, dtype=object)
    for idx in np.ndindex(*a.shape):
        out[idx] = f(a[idx])
    if a.ndim == 0:
        out[()] = f(a[()])
    return out


def fro_norm(a):
    vals = list(_arr(a).reshape(-1))
    if symx.CTX.mode == "concrete" or not any(isinstance(v, symx.SymReal) for v in vals):
        import math

        return math.sqrt(sum(float(v) * float(v) for v in vals))
    return symx.norm2(vals)


def _sym(a):
    return any(isinstance(v, symx.SymReal) for v in a.reshape(-1)[:1]) if a.size else symx.CTX.mode != "concrete"


def mode_product(x, mats, selector, back=False):
    """x contracted along every selected mode d with mats[.] :  forward  sum_j x[..j..] M[j,i];  back  sum_j x[..j..] M[i,j]."""
    it = iter(mats)
    out = x
    for d, sel in enumerate(selector):
        if not sel:
            continue
        M = next(it)
        out = np.moveaxis(np.tensordot(out, M.T if back else M, axes=([d], [0])), -1, d)
    return out


def gram(g, d):
    axes = [j for j in range(g.ndim) if j != d]
    if not axes:
        return np.multiply.outer(g, g)
    return np.tensordot(g, g, axes=(axes, axes))


# ------------------------------------------------------------------------------------------ documented blocking
def merge_dims(shape, threshold):
    """Fuse adjacent dims while the product stays <= threshold; size-1 dims are dropped (all ones -> (1,))."""
    sq = [d for d in shape if d != 1] or [1]
    out = [sq[0]]
    for d in sq[1:]:
        if out[-1] * d <= threshold:
            out[-1] *= d
        else:
            out.append(d)
    return tuple(out)


def block_slices(merged_shape, mpd):
    """Row-major grid of blocks of side <= mpd over the merged shape: list of tuples of slices."""
    rngs = [[(i, min(i + mpd, d)) for i in range(0, d, mpd)] or [(0, 0)] for d in merged_shape]
    return [tuple(slice(a, b) for a, b in combo) for combo in itertools.product(*rngs)]


def blocking(shape, mpd, merge):
    ms = merge_dims(shape, mpd) if merge else tuple(shape)
    return ms, block_slices(ms, mpd)


# ------------------------------------------------------------------------------------------ per-block state
class BlockRef:
    def __init__(self, shape, cfg, zero):
        self.shape = tuple(shape)
        self.order = len(self.shape)
        ign = set(cfg.get("ignored_dims", ()))
        self.sel = tuple(d not in ign for d in range(self.order))
        self.pdims = [self.shape[d] for d in range(self.order) if self.sel[d]]
        self.L = [zeros((n, n), zero) for n in self.pdims]
        self.inv = [zeros((n, n), zero) for n in self.pdims]  # Shampoo: inverse roots; SOAP: eigenbases
        self.has_basis = False
        self.E = zeros(self.shape, zero)  # SOAP corrected eigenvalues
        self.F = zeros(self.shape, zero)
        self.M = zeros(self.shape, zero)
        self.V = zeros(self.shape, zero)
        self.fail_count = 0


def root_for(cfg, order):
    """Documented root: override (int, or per-order list with default beyond its length), else 2*order (Shampoo) / 2 (SOAP)."""
    iro = cfg.get("inv_root_override", 0)
    default = 2 if cfg.get("precond", "shampoo") != "shampoo" else 2 * order
    if isinstance(iro, (list, tuple)):
        r = default if order >= len(iro) else iro[order]
    else:
        r = default if iro == 0 else iro
    return r


def is_refresh(k, cfg, decide=bool):
    """Refresh iff k == start or (k > start and k is a multiple of the frequency)."""
    sps, pf = cfg["sps"], cfg["pf"]
    if decide(k == sps):
        return True
    return bool(decide(k > sps) and decide(k % pf == 0))


def pw(base, k):
    """base ** k for an int or symbolic-int k."""
    if isinstance(k, int):
        return base**k
    return symx.powk(base, k)


def ref_block_step(cfg, hp, blk, W, G, k, refresh, callbacks, decide=bool):
    """One documented step of one block that has a gradient.  Returns the new parameter block.

    hp: lr b1 b2 b3 eps wd mom damp geps gb2 delta;  k: the group's step count (after increment);
    refresh: whether this is a refresh step; callbacks.invroot(blk, i, A, root, eps) / callbacks.eigvecs(blk, i, A, Qprev)."""
    lr, b1, b2, b3, eps, wd, mom, damp = (hp[x] for x in ("lr", "b1", "b2", "b3", "eps", "wd", "mom", "damp"))
    graft, soap = cfg.get("graft"), cfg.get("precond", "shampoo") != "shampoo"
    one = 1.0 if symx.CTX.mode == "concrete" else symx.SymReal.const(1)
    coupled = decide(wd != 0.0) and not cfg["decoupled"]
    g = G + W * wd if coupled else G
    # Kronecker factors: accumulate the mode-wise Gram matrices
    b2_is_one = not decide(b2 != 1.0)
    pd = [d for d in range(blk.order) if blk.sel[d]]
    for i, d in enumerate(pd):
        gm = gram(g, d)
        blk.L[i] = blk.L[i] + gm if b2_is_one else blk.L[i] * b2 + gm * (1 - b2)
    bc2 = (1 - pw(b2, k)) if (cfg["bias_corr"] and not b2_is_one) else one
    # grafting second moment
    gbc2 = one
    if graft == "adagrad":
        blk.V = blk.V + g * g
    elif graft in ("rmsprop", "adam"):
        gb2 = hp["gb2"]
        gb2_is_one = not decide(gb2 != 1.0)
        blk.V = blk.V + g * g if gb2_is_one else blk.V * gb2 + g * g * (1 - gb2)
        if graft == "adam" and not gb2_is_one:
            gbc2 = 1 - pw(gb2, k)
    # amortised computation
    root = root_for(cfg, blk.order)
    if refresh:
        if not soap:
            r = Fraction(root) / Fraction(cfg.get("exponent_multiplier", 1)).limit_denominator(1000)
            new = [callbacks.invroot(blk, i, blk.L[i] / bc2, r, eps) for i in range(len(pd))]
            blk.inv = [n if n is not None else o for n, o in zip(new, blk.inv)]
        else:
            new = [callbacks.eigvecs(blk, i, blk.L[i], blk.inv[i]) for i in range(len(pd))]
            blk.inv = [n if n is not None else o for n, o in zip(new, blk.inv)]
            if pd and any(n is not None for n in new[:1]):
                blk.has_basis = True
    if soap:
        use_basis = blk.has_basis and bool(pd)
        gr = mode_product(g, blk.inv, blk.sel) if use_basis else g
        blk.E = blk.E + gr * gr if b2_is_one else blk.E * b2 + gr * gr * (1 - b2)
    # gradient filtering
    if decide(b1 != 0.0):
        fbar = blk.F * b3 + g * (1 - b3)
        blk.F = blk.F * b1 + g * (1 - b1)
        if cfg["bias_corr"]:
            fbar = fbar / (1 - b3 * pw(b1, k - 1))
    else:
        fbar = g

    def graft_dir(x):
        if graft == "sgd":
            return x
        return x / (amap(symx.sqrt, blk.V / gbc2) + hp["geps"])

    if graft is not None and decide(k < cfg["sps"]):
        P = graft_dir(fbar)
    else:
        if not soap:
            P = mode_product(fbar, blk.inv, blk.sel)
        else:
            use_basis = blk.has_basis and bool(pd)
            x = mode_product(fbar, blk.inv, blk.sel) if use_basis else fbar
            den = amap(lambda v: symx.root(v, root) if root != 1 else v, blk.E / bc2 + eps)
            x = x / den
            P = mode_product(x, blk.inv, blk.sel, back=True) if use_basis else x
        if graft is not None:
            P = P * (fro_norm(graft_dir(fbar)) / (fro_norm(P) + hp["delta"]))
    if cfg["decoupled"] and decide(wd != 0.0):
        P = P + W * wd
    if decide(mom != 0.0):
        blk.M = blk.M * mom + P * (1 - damp)
        P = P * (1 - damp) + blk.M * mom if cfg["nesterov"] else blk.M
    return W - P * lr
